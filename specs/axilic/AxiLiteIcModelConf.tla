------------------------- MODULE AxiLiteIcModelConf -------------------------
(* Conformance of the L2 model (AxiLiteIcModel) to the real netlists: every  *)
(* recorded step (registers read from the netlist, inputs, outputs,          *)
(* registers after the clock edge) must be exactly what MStep computes.      *)
(* Cases: (a) ALL edges of the complete G-mode graphs of the one-direction   *)
(* netlists, (b) every cycle of runs of the netlists with both directions    *)
(* driven together (harness/families/axilic_l2.py).                          *)
(*   T.duts[i] = [m |-> model cfg, reset |-> registers after reset,          *)
(*                cases |-> << <<r, iv, o, r2>>, ... >>]                     *)
EXTENDS Integers, Sequences, TLC, Json, IOUtils

M == INSTANCE AxiLiteIcModel
T == JsonDeserialize(IOEnv.CASES)

VARIABLES i, j
vars == <<i, j>>
Init == i \in 1..Len(T.duts) /\ j \in 1..Len(T.duts[i].cases)
Next == UNCHANGED vars

K == T.duts[i].cases[j]
E == M!MStep(T.duts[i].m, K[1], K[2])
OutputsAgree == E.o = K[3]
NextStateAgrees == E.r = K[4]
ResetAgrees == T.duts[i].reset = M!MInit(T.duts[i].m)
=============================================================================
