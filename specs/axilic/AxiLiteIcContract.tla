-------------------------- MODULE AxiLiteIcContract --------------------------
(***************************************************************************)
(* L1 contract of an AXI4-Lite shared interconnect / crossbar              *)
(* (litex/soc/interconnect/axi/axi_lite.py), property C08 (and with a      *)
(* time-out and faulty slaves C11).  One direction per configuration:      *)
(* c.dir = "w": channels AW, W, B;  c.dir = "r": AR, R (W fields unused).   *)
(*                                                                         *)
(* One step = one clock cycle.  N masters, M slaves.                       *)
(*  iv = per master <<av, tgt, wv, rr>>: av/tgt offer a request address of *)
(*       slave tgt's region, wv offers write data, rr = ready for the      *)
(*       response;  per slave <<ar, wr, rv>>: address ready, data ready,   *)
(*       response valid (rv is a wish: only legal when a response is owed) *)
(*  o  = per master <<aready, wready, rvalid, rtag>>; per slave            *)
(*       <<avalid, aaddr, wvalid, wtag, rready>>                           *)
(*  Tags: master i uses address base[tgt] + 4*i and write data i; slave j  *)
(*  answers with response code/data tag j.                                 *)
(* c: n, m, k (max outstanding per master and per slave), bases, dir, cbar,*)
(*    mfree / sfree (per port: 1 = full freedom, 0 = simple behaviour:     *)
(*    a simple master offers address and data together and is always ready *)
(*    for responses; a simple slave is always ready and answers at once),  *)
(*    earlyw, xslave (see MasterMoves)                                     *)
(***************************************************************************)
EXTENDS Integers, Sequences, FiniteSets, TLC

VARIABLES ah,    \* per master: target of the address offer it holds (0 none)
          wh,    \* per master: 1 if it holds a data offer
          aq,    \* per master: targets of its accepted, unanswered requests (oldest first)
          nw,    \* per master: data beats accepted and not yet answered
          ew,    \* per master: slaves that took data beats whose address was not yet accepted ("early W")
          wt,    \* per master: targets owed a data beat (address accepted, data not yet)
          qa,    \* per slave: masters of accepted, unanswered requests (oldest first)
          qw,    \* per slave: number of accepted data beats not yet answered
          rh,    \* per slave: 1 if it holds a response offer
          sav,   \* per slave: address offer <<addr>> presented by the interconnect in the previous cycle and not accepted
          swv,   \* per slave: data offer <<tag>> likewise
          mrv,   \* per master: response offer <<tag>> presented by the interconnect and not accepted
          obs

cvars == <<ah, wh, aq, nw, ew, wt, qa, qw, rh, sav, swv, mrv, obs>>

MAXN == 3
Masters(c) == 1..c.n
Slaves(c)  == 1..c.m
HasW(c) == c.dir = "w"
Addr(c, i, t) == c.bases[t] + 4 * i

MAv(iv, i)  == iv[4 * (i - 1) + 1]
MTgt(iv, i) == iv[4 * (i - 1) + 2]
MWv(iv, i)  == iv[4 * (i - 1) + 3]
MRr(iv, i)  == iv[4 * (i - 1) + 4]
SAr(c, iv, j) == iv[4 * c.n + 3 * (j - 1) + 1]
SWr(c, iv, j) == iv[4 * c.n + 3 * (j - 1) + 2]
SRv(c, iv, j) == iv[4 * c.n + 3 * (j - 1) + 3]
OAr(o, i)  == o[4 * (i - 1) + 1]
OWr(o, i)  == o[4 * (i - 1) + 2]
ORv(o, i)  == o[4 * (i - 1) + 3]
ORt(o, i)  == o[4 * (i - 1) + 4]
OAv(c, o, j)  == o[4 * c.n + 5 * (j - 1) + 1]
OAa(c, o, j)  == o[4 * c.n + 5 * (j - 1) + 2]
OWv(c, o, j)  == o[4 * c.n + 5 * (j - 1) + 3]
OWt(c, o, j)  == o[4 * c.n + 5 * (j - 1) + 4]
ORr(c, o, j)  == o[4 * c.n + 5 * (j - 1) + 5]

---------------------------------------------------------------------------
(* Environment *)
\* c.earlyw = 0: a master offers write data only together with or after its address offer
\* c.xslave = 0: a master does not address another slave while it has unanswered requests
MasterMoves(c, i) ==
  LET canA == Len(aq[i]) < c.k
      canW == HasW(c) /\ nw[i] < c.k
      Tgts == IF c.xslave = 1 \/ aq[i] = <<>> THEN Slaves(c) ELSE { aq[i][1] }
      AOpts == IF ah[i] # 0 THEN { ah[i] }
               ELSE IF canA THEN {0} \cup Tgts ELSE {0}
      WOpts(t) == IF wh[i] = 1 THEN {1}
                  \* without early data the number of data beats never exceeds the number of addresses
                  ELSE IF canW /\ (c.earlyw = 1 \/ nw[i] + 1 <= Len(aq[i]) + (IF t # 0 THEN 1 ELSE 0))
                       THEN {0, 1} ELSE {0}
  IN IF c.mfree[i] = 1
     THEN UNION { { <<IF t = 0 THEN 0 ELSE 1, t, w, r>> : w \in WOpts(t), r \in {0, 1} } : t \in AOpts }
     ELSE \* simple master: address and data offered together, always ready for the response
          IF ah[i] # 0 \/ wh[i] = 1
          THEN { <<IF ah[i] # 0 THEN 1 ELSE 0, ah[i], wh[i], 1>> }
          ELSE { <<0, 0, 0, 1>> } \cup
               (IF canA /\ (canW \/ ~HasW(c))
                THEN { <<1, t, IF HasW(c) THEN 1 ELSE 0, 1>> : t \in Tgts } ELSE {})

SlaveMoves(c, j) ==
  IF c.sfree[j] = 1
  THEN { <<a, w, r>> : a \in (IF Len(qa[j]) < c.k THEN {0, 1} ELSE {0}),
                       w \in (IF HasW(c) /\ qw[j] < c.k THEN {0, 1} ELSE {0}),
                       r \in (IF rh[j] = 1 THEN {1} ELSE {0, 1}) }
  ELSE { <<IF Len(qa[j]) < c.k THEN 1 ELSE 0, IF HasW(c) /\ qw[j] < c.k THEN 1 ELSE 0, 1>> }

RECURSIVE MProd(_, _), SProd(_, _)
MProd(c, i) == IF i > c.n THEN { <<>> }
               ELSE { mv \o rest : mv \in MasterMoves(c, i), rest \in MProd(c, i + 1) }
SProd(c, j) == IF j > c.m THEN { <<>> }
               ELSE { sv \o rest : sv \in SlaveMoves(c, j), rest \in SProd(c, j + 1) }
Inputs(c) == { a \o b : a \in MProd(c, 1), b \in SProd(c, 1) }

---------------------------------------------------------------------------
CInit ==
  /\ ah = [i \in 1..MAXN |-> 0] /\ wh = [i \in 1..MAXN |-> 0]
  /\ aq = [i \in 1..MAXN |-> <<>>] /\ nw = [i \in 1..MAXN |-> 0]
  /\ ew = [i \in 1..MAXN |-> <<>>] /\ wt = [i \in 1..MAXN |-> <<>>]
  /\ qa = [j \in 1..MAXN |-> <<>>] /\ qw = [j \in 1..MAXN |-> 0]
  /\ rh = [j \in 1..MAXN |-> 0]
  /\ sav = [j \in 1..MAXN |-> <<>>] /\ swv = [j \in 1..MAXN |-> <<>>]
  /\ mrv = [i \in 1..MAXN |-> <<>>]
  /\ obs = [okroute |-> TRUE, okw |-> TRUE, okonce |-> TRUE, okresp |-> TRUE, okfrozen |-> TRUE,
            okhold |-> TRUE, okholdw |-> TRUE, prog |-> [i \in 1..MAXN |-> TRUE], idle |-> [i \in 1..MAXN |-> TRUE], fair |-> TRUE]

CStep(c, iv, o) ==
  LET \* ---- handshakes seen at the masters
      mAfire(i) == MAv(iv, i) = 1 /\ OAr(o, i) = 1
      mWfire(i) == MWv(iv, i) = 1 /\ OWr(o, i) = 1
      mRfire(i) == ORv(o, i) = 1 /\ MRr(iv, i) = 1
      \* ---- what the slaves do: a slave raises its response only if one is owed
      owed(j)   == Len(qa[j]) >= 1 /\ (HasW(c) => qw[j] >= 1)
      sRvalid(j) == SRv(c, iv, j) = 1 /\ (owed(j) \/ rh[j] = 1)
      sAfire(j) == OAv(c, o, j) = 1 /\ SAr(c, iv, j) = 1
      sWfire(j) == OWv(c, o, j) = 1 /\ SWr(c, iv, j) = 1
      sRfire(j) == sRvalid(j) /\ ORr(c, o, j) = 1
      \* master whose address slave j sees
      AMaster(j) == { i \in Masters(c) : MAv(iv, i) = 1 /\ MTgt(iv, i) = j /\ OAa(c, o, j) = Addr(c, i, j) }
      \* ---- C08 clauses
      \* each address handshake at a slave is the handshake of exactly one master whose address decodes to it
      okroute ==
        /\ \A j \in Slaves(c) : OAv(c, o, j) = 1 => AMaster(j) # {}
        /\ \A j \in Slaves(c) : sAfire(j) => \E i \in AMaster(j) : mAfire(i)
        /\ \A i \in Masters(c) : mAfire(i) =>
              Cardinality({ j \in Slaves(c) : sAfire(j) /\ i \in AMaster(j) }) = 1
      \* data: a beat accepted from master i is accepted by exactly one slave, which sees i's tag
      WSlaves(i) == { j \in Slaves(c) : sWfire(j) /\ OWt(c, o, j) = i }
      okonce ==
        /\ \A i \in Masters(c) : mWfire(i) => Cardinality(WSlaves(i)) = 1
        /\ \A j \in Slaves(c) : sWfire(j) => (OWt(c, o, j) \in Masters(c) /\ mWfire(OWt(c, o, j)))
        /\ \A j \in Slaves(c) : OWv(c, o, j) = 1 => (OWt(c, o, j) \in Masters(c) /\ MWv(iv, OWt(c, o, j)) = 1)
      \* "W follows its AW": the k-th data beat of a master goes to the slave of its k-th address
      \* (1) a beat whose address is already accepted (or accepted in this cycle)
      atgt(i) == IF wt[i] # <<>> THEN Head(wt[i])
                 ELSE IF mAfire(i) /\ ew[i] = <<>> THEN MTgt(iv, i) ELSE 0
      okw1 == \A i \in Masters(c) : (mWfire(i) /\ atgt(i) # 0) => WSlaves(i) = { atgt(i) }
      \* (2) an address accepted after its (early) data beat: must name the slave that took the beat
      okw2 == \A i \in Masters(c) : (mAfire(i) /\ ew[i] # <<>>) => Head(ew[i]) = MTgt(iv, i)
      \* responses: in order, from the slave, to the issuing master only
      okresp ==
        /\ \A j \in Slaves(c) : sRfire(j) =>
              ( /\ qa[j] # <<>>
                /\ LET i == Head(qa[j]) IN mRfire(i) /\ ORt(o, i) = j /\ aq[i] # <<>> /\ Head(aq[i]) = j )
        /\ \A i \in Masters(c) : mRfire(i) =>
              Cardinality({ j \in Slaves(c) : sRfire(j) /\ qa[j] # <<>> /\ Head(qa[j]) = i }) = 1
        /\ \A i \in Masters(c) : ORv(o, i) = 1 =>
              \E j \in Slaves(c) : sRvalid(j) /\ qa[j] # <<>> /\ Head(qa[j]) = i /\ ORt(o, i) = j
      \* new state of the queues
      aq1 == [i \in 1..MAXN |->
                LET a == IF i \in Masters(c) /\ mRfire(i) /\ aq[i] # <<>> THEN Tail(aq[i]) ELSE aq[i]
                IN IF i \in Masters(c) /\ mAfire(i) THEN Append(a, MTgt(iv, i)) ELSE a]
      qa1 == [j \in 1..MAXN |->
                LET a == IF j \in Slaves(c) /\ sRfire(j) /\ qa[j] # <<>> THEN Tail(qa[j]) ELSE qa[j]
                    ms == IF j \in Slaves(c) /\ sAfire(j) THEN AMaster(j) ELSE {}
                IN IF ms # {} THEN Append(a, CHOOSE i \in ms : TRUE) ELSE a]
      \* grant / select frozen while responses are outstanding
      Outst(S) == UNION { { qa1[j][x] : x \in 1..Len(qa1[j]) } : j \in S }
      okfrozen ==
        /\ (c.xslave = 0 => \A i \in Masters(c) : \A x, y \in 1..Len(aq1[i]) : aq1[i][x] = aq1[i][y])
        /\ IF c.cbar = 1 THEN \A j \in Slaves(c) : Cardinality(Outst({j})) <= 1
                         ELSE Cardinality(Outst(Slaves(c))) <= 1
      \* valid/payload hold on the channels the interconnect drives
      okhold ==
        /\ \A j \in Slaves(c) : sav[j] # <<>> => (OAv(c, o, j) = 1 /\ OAa(c, o, j) = sav[j][1])
        /\ \A i \in Masters(c) : mrv[i] # <<>> => (ORv(o, i) = 1 /\ ORt(o, i) = mrv[i][1])
      okholdw ==
        \A j \in Slaves(c) : swv[j] # <<>> => (OWv(c, o, j) = 1 /\ OWt(c, o, j) = swv[j][1])
  IN
  /\ ah' = [i \in 1..MAXN |-> IF i \in Masters(c) /\ MAv(iv, i) = 1 /\ ~mAfire(i) THEN MTgt(iv, i) ELSE 0]
  /\ wh' = [i \in 1..MAXN |-> IF i \in Masters(c) /\ MWv(iv, i) = 1 /\ ~mWfire(i) THEN 1 ELSE 0]
  /\ aq' = aq1
  /\ nw' = [i \in 1..MAXN |-> IF i \notin Masters(c) THEN 0
                              ELSE nw[i] + (IF mWfire(i) THEN 1 ELSE 0) - (IF mRfire(i) /\ nw[i] > 0 THEN 1 ELSE 0)]
  /\ wt' = [i \in 1..MAXN |->
              IF i \notin Masters(c) \/ ~HasW(c) THEN <<>>
              ELSE LET a == IF mAfire(i) /\ ew[i] = <<>> THEN Append(wt[i], MTgt(iv, i)) ELSE wt[i]
                   IN IF mWfire(i) /\ a # <<>> THEN Tail(a) ELSE a]
  /\ ew' = [i \in 1..MAXN |->
              IF i \notin Masters(c) \/ ~HasW(c) THEN <<>>
              ELSE LET a == IF mAfire(i) /\ ew[i] # <<>> THEN Tail(ew[i]) ELSE ew[i]
                   IN IF mWfire(i) /\ atgt(i) = 0 /\ WSlaves(i) # {}
                      THEN Append(a, CHOOSE j \in WSlaves(i) : TRUE) ELSE a]
  /\ qa' = qa1
  /\ qw' = [j \in 1..MAXN |-> IF j \notin Slaves(c) THEN 0
                              ELSE qw[j] + (IF sWfire(j) THEN 1 ELSE 0) - (IF sRfire(j) /\ qw[j] > 0 THEN 1 ELSE 0)]
  /\ rh' = [j \in 1..MAXN |-> IF j \in Slaves(c) /\ sRvalid(j) /\ ~sRfire(j) THEN 1 ELSE 0]
  /\ sav' = [j \in 1..MAXN |-> IF j \in Slaves(c) /\ OAv(c, o, j) = 1 /\ ~sAfire(j) THEN <<OAa(c, o, j)>> ELSE <<>>]
  /\ swv' = [j \in 1..MAXN |-> IF j \in Slaves(c) /\ OWv(c, o, j) = 1 /\ ~sWfire(j) THEN <<OWt(c, o, j)>> ELSE <<>>]
  /\ mrv' = [i \in 1..MAXN |-> IF i \in Masters(c) /\ ORv(o, i) = 1 /\ ~mRfire(i) THEN <<ORt(o, i)>> ELSE <<>>]
  /\ obs' = [okroute |-> okroute, okw |-> okw1 /\ okw2, okonce |-> okonce, okresp |-> okresp,
             okfrozen |-> okfrozen, okhold |-> okhold, okholdw |-> okholdw,
             \* master i made progress in this cycle (some handshake) or has nothing pending
             prog |-> [i \in 1..MAXN |-> i \notin Masters(c) \/ mAfire(i) \/ mWfire(i) \/ mRfire(i)
                                          \/ (MAv(iv, i) = 0 /\ MWv(iv, i) = 0 /\ aq[i] = <<>>)],
             idle |-> [i \in 1..MAXN |-> i \notin Masters(c) \/ (MAv(iv, i) = 0 /\ MWv(iv, i) = 0 /\ aq[i] = <<>>)],
             \* cooperation in this cycle: slaves ready and answering, masters accepting responses and not
             \* withholding the other half of a write (data for an accepted address / address for early data)
             fair |-> /\ \A j \in Slaves(c) : SAr(c, iv, j) = 1 /\ (HasW(c) => SWr(c, iv, j) = 1) /\ SRv(c, iv, j) = 1
                      /\ \A i \in Masters(c) : /\ MRr(iv, i) = 1
                                                /\ (wt[i] # <<>> => MWv(iv, i) = 1)
                                                /\ (ew[i] # <<>> => MAv(iv, i) = 1)
                                                /\ ((MAv(iv, i) = 1 /\ HasW(c) /\ wt[i] = <<>> /\ ew[i] = <<>>) => MWv(iv, i) = 1)]

---------------------------------------------------------------------------
RoutedByAddress        == obs.okroute   \* an accepted address reaches exactly one slave, chosen by the address
WFollowsItsAW          == obs.okw       \* write data goes to the slave of its address, whatever the AW/W order
DataExactlyOnce        == obs.okonce
ResponseToIssuerInOrder == obs.okresp   \* B / R reach the issuing master exactly once, in issue order
FrozenWhileOutstanding == obs.okfrozen  \* grant and slave selection do not change while responses are outstanding
ValidHold              == obs.okhold    \* address offers at slaves, responses at masters
WValidHold             == obs.okholdw   \* write data offers at slaves
=============================================================================
