--------------------------- MODULE AxiLiteIcGraph ---------------------------
EXTENDS AxiLiteIcContract, Json, IOUtils, GraphLookup
G == JsonDeserialize(IOEnv.GRAPH)
NDuts == Len(G.duts)
VARIABLES d, s,
          ph   \* toggles on a step that changes nothing else: a hung implementation (fixpoint of the product)
               \* must be an infinite NON-stuttering behaviour, or WF_vars(Next) would let TLC walk away from it
vars == <<d, s, ah, wh, aq, nw, ew, wt, qa, qw, rh, sav, swv, mrv, obs, ph>>
C == G.duts[d].cfg
Init == /\ d \in 1..NDuts /\ s = 0 /\ ph = 0 /\ CInit
Step(iv) ==
  /\ s >= 0
  /\ LET e == GLookup(G.duts[d].succ[s + 1], iv) IN
       IF e # <<>>
       THEN /\ s' = e[3] /\ d' = d
            /\ CStep(C, iv, e[2])
            /\ ph' = IF e[3] = s /\ cvars' = cvars THEN 1 - ph ELSE 0
       ELSE /\ PrintT(<<"NEED", d, s, iv>>)
            /\ s' = -1 /\ d' = d /\ ph' = 0 /\ UNCHANGED cvars
Next == \E iv \in Inputs(C) : Step(iv)
Spec == Init /\ [][Next]_vars /\ WF_vars(Next)
Alias == [d |-> d, s |-> s, obs |-> obs, aq |-> aq, qa |-> qa, ew |-> ew, wt |-> wt,
          iv |-> CHOOSE iv \in Inputs(C) : Step(iv)]
(* every requesting master is eventually served: with slaves and masters that cooperate   *)
(* from some point on, every master with something pending keeps completing handshakes    *)
Served == (<>[](obs.fair)) => \A i \in 1..MAXN : []<>(obs.prog[i])
(* the same for masters whose traffic has gaps (each of them is idle infinitely often):     *)
(* the weaker guarantee a round-robin that only moves on an idle bus can give              *)
(* (per master: the OTHER masters' traffic has gaps - a master that hangs is never idle    *)
(* again, so asking it to be idle too would make the clause vacuous for exactly that case) *)
ServedIfGaps == \A i \in 1..MAXN : ((<>[](obs.fair)) /\ (\A j \in (1..MAXN) \ {i} : []<>(obs.idle[j]))) => []<>(obs.prog[i])
=============================================================================
