--------------------------- MODULE AxiLiteIcGraph ---------------------------
EXTENDS AxiLiteIcContract, Json, IOUtils
G == JsonDeserialize(IOEnv.GRAPH)
NDuts == Len(G.duts)
VARIABLES d, s
vars == <<d, s, ah, wh, aq, nw, ew, wt, qa, qw, rh, sav, swv, mrv, obs>>
C == G.duts[d].cfg
Init == /\ d \in 1..NDuts /\ s = 0 /\ CInit
Step(iv) ==
  /\ s >= 0
  /\ LET k == ToString(iv) IN
       IF k \in DOMAIN G.duts[d].succ[s + 1]
       THEN LET e == G.duts[d].succ[s + 1][k] IN
            /\ s' = e.d /\ d' = d
            /\ CStep(C, iv, e.o)
       ELSE /\ PrintT(<<"NEED", d, s, iv>>)
            /\ s' = -1 /\ d' = d /\ UNCHANGED cvars
Next == \E iv \in Inputs(C) : Step(iv)
Spec == Init /\ [][Next]_vars /\ WF_vars(Next)
Alias == [d |-> d, s |-> s, obs |-> obs, aq |-> aq, qa |-> qa, ew |-> ew, wt |-> wt,
          iv |-> CHOOSE iv \in Inputs(C) : Step(iv)]
(* every requesting master is eventually served: with slaves and masters that cooperate   *)
(* infinitely often nothing stays held or outstanding forever                             *)
Served == ((<>[](obs.sfair)) /\ (<>[](obs.mfair))) => []<>(~obs.busy)
=============================================================================
