-------------------------- MODULE AxiLiteIcModelM --------------------------
(***************************************************************************)
(* M-mode:  L2 model (AxiLiteIcModel) x Env x monitor of AxiLiteIcContract, *)
(* no code involved.  It is AxiLiteIcGraph with the lookup in the graph of  *)
(* the real netlist replaced by the model's step function - and with BOTH   *)
(* directions in one product: the contract module (one direction per        *)
(* configuration) is instantiated twice, W judges AW/W/B, R judges AR/R, on *)
(* the same step of the same model.  The environment and the clauses are    *)
(* literally those that judge the real code; G-mode explores the directions *)
(* separately, here every interleaving of write and read traffic is         *)
(* explored, so that the independence of the directions can be stated.      *)
(*                                                                         *)
(* MC = list of [cw |-> contract configuration of the write direction,      *)
(*               cr |-> ... of the read direction (k = 0: that direction    *)
(*               stays idle),  m |-> model configuration (dirs = "rw")].     *)
(***************************************************************************)
EXTENDS Integers, Sequences, FiniteSets, TLC, Json, IOUtils

M == INSTANCE AxiLiteIcModel
MC == JsonDeserialize(IOEnv.MCFG)

VARIABLES d,    \* which configuration
          r,    \* the model's registers
          ph,   \* see AxiLiteIcGraph
          okx,  \* verdict bit of DirectionsShareNothing for the step just taken
          w_ah, w_wh, w_aq, w_nw, w_ew, w_wt, w_qa, w_qw, w_rh, w_sav, w_swv, w_mrv, w_obs,
          r_ah, r_wh, r_aq, r_nw, r_ew, r_wt, r_qa, r_qw, r_rh, r_sav, r_swv, r_mrv, r_obs

W == INSTANCE AxiLiteIcContract WITH ah <- w_ah, wh <- w_wh, aq <- w_aq, nw <- w_nw, ew <- w_ew, wt <- w_wt,
       qa <- w_qa, qw <- w_qw, rh <- w_rh, sav <- w_sav, swv <- w_swv, mrv <- w_mrv, obs <- w_obs
R == INSTANCE AxiLiteIcContract WITH ah <- r_ah, wh <- r_wh, aq <- r_aq, nw <- r_nw, ew <- r_ew, wt <- r_wt,
       qa <- r_qa, qw <- r_qw, rh <- r_rh, sav <- r_sav, swv <- r_swv, mrv <- r_mrv, obs <- r_obs

wvars == <<w_ah, w_wh, w_aq, w_nw, w_ew, w_wt, w_qa, w_qw, w_rh, w_sav, w_swv, w_mrv, w_obs>>
rvars == <<r_ah, r_wh, r_aq, r_nw, r_ew, r_wt, r_qa, r_qw, r_rh, r_sav, r_swv, r_mrv, r_obs>>
vars == <<d, r, ph, okx, wvars, rvars>>

Cw == MC[d].cw
Cr == MC[d].cr
Mc == MC[d].m
MAXN == 3

Init == /\ d \in 1..Len(MC) /\ r = M!MInit(MC[d].m) /\ ph = 0 /\ okx = TRUE /\ W!CInit /\ R!CInit

(* DirectionsShareNothing (the unwinding form of "the two directions are    *)
(* independent"): what the write direction shows and stores in this cycle   *)
(* is what it would show and store if the read direction were in reset with *)
(* idle pins, and vice versa.  Checked on the configurations with chkx = 1  *)
(* (it triples the cost of a step).                                         *)
ShareNothing(ivw, ivr, e) ==
  LET r0 == M!MInit(Mc)
      rw == [r0 EXCEPT !.rr_write = r.rr_write, !.wr_lock = r.wr_lock, !.sel_write = r.sel_write,
                       !.lock_write = r.lock_write, !.tbw_ca = r.tbw_ca, !.tbw_cw = r.tbw_cw, !.tbw_hold = r.tbw_hold]
      rr == [r0 EXCEPT !.rr_read = r.rr_read, !.rd_lock = r.rd_lock, !.sel_read = r.sel_read,
                       !.lock_read = r.lock_read, !.tbr_ca = r.tbr_ca, !.tbr_hold = r.tbr_hold]
      ew == M!RwStep(Mc, rw, ivw, M!ZeroIv(Mc))
      er == M!RwStep(Mc, rr, M!ZeroIv(Mc), ivr)
  IN /\ ew.ow = e.ow /\ M!WriteRegs(ew.r) = M!WriteRegs(e.r)
     /\ er.or = e.or /\ M!ReadRegs(er.r) = M!ReadRegs(e.r)

Step(ivw, ivr) ==
  LET e == M!RwStep(Mc, r, ivw, ivr) IN
    /\ r' = e.r /\ d' = d
    \* a direction with k = 0 stays idle (no offers, nothing owed): its monitor keeps its initial state
    /\ IF Cw.k = 0 THEN UNCHANGED wvars ELSE W!CStep(Cw, ivw, e.ow)
    /\ IF Cr.k = 0 THEN UNCHANGED rvars ELSE R!CStep(Cr, ivr, e.or)
    /\ okx' = IF MC[d].chkx = 1 THEN ShareNothing(ivw, ivr, e) ELSE TRUE
    /\ ph' = IF e.r = r /\ wvars' = wvars /\ rvars' = rvars THEN 1 - ph ELSE 0

(* MC[d].actw / actr: masters that issue requests in the write / read        *)
(* direction (the others stay silent there): a sub-environment, chosen per   *)
(* configuration to keep the product of the two directions affordable        *)
InW == { iv \in W!Inputs(Cw) : \A i \in 1..Mc.n : MC[d].actw[i] = 0 => (W!MAv(iv, i) = 0 /\ W!MWv(iv, i) = 0) }
InR == { iv \in R!Inputs(Cr) : \A i \in 1..Mc.n : MC[d].actr[i] = 0 => (R!MAv(iv, i) = 0 /\ R!MWv(iv, i) = 0) }
Next == LET a == InW  b == InR IN \E ivw \in a : \E ivr \in b : Step(ivw, ivr)
(* Fairness: time does not stop.  Next is enabled in every state (the        *)
(* environment always has a move) and every Next step changes vars (ph), so  *)
(* WF_vars(Next) is []<><<TRUE>>_vars; written this way TLC compares the two *)
(* states of a transition instead of searching, for every transition, the    *)
(* input pair that produces it (which squares the cost of a state).          *)
Spec == Init /\ [][Next]_vars /\ []<><<TRUE>>_vars
Alias == [d |-> d, r |-> r, w_obs |-> w_obs, r_obs |-> r_obs, w_aq |-> w_aq, r_aq |-> r_aq, w_qa |-> w_qa, r_qa |-> r_qa,
          iv |-> LET p == CHOOSE p \in InW \X InR : Step(p[1], p[2]) IN p[1] \o p[2]]

---------------------------------------------------------------------------
(* the clauses of the L1 contract, for both directions *)
RoutedByAddress         == W!RoutedByAddress /\ R!RoutedByAddress
WFollowsItsAW           == W!WFollowsItsAW /\ R!WFollowsItsAW
DataExactlyOnce         == W!DataExactlyOnce /\ R!DataExactlyOnce
ResponseToIssuerInOrder == W!ResponseToIssuerInOrder /\ R!ResponseToIssuerInOrder
FrozenWhileOutstanding  == W!FrozenWhileOutstanding /\ R!FrozenWhileOutstanding
ValidHold               == W!ValidHold /\ R!ValidHold
WValidHold              == W!WValidHold /\ R!WValidHold
DirectionsShareNothing  == okx

(* Liveness.  Arb: the configuration has an arbiter with more than one      *)
(* master; there a master that issues back to back keeps the grant (listed  *)
(* finding C08-arbiter-starvation), so Served is claimed without            *)
(* arbitration only and ServedIfGaps everywhere, as in G-mode.              *)
(* The premises of the clauses of one direction mention that direction      *)
(* only: nothing is assumed about the other direction, whose masters and    *)
(* slaves may stall for ever.  Holding in this product, the clauses say     *)
(* that a stalled write never blocks a read and vice versa - this is        *)
(* ReadWriteIndependent (M-mode only: G-mode has no product of the two).    *)
Arb == Mc.n > 1 /\ Mc.kind \in {"arbiter", "shared", "crossbar"}
ServedW == (<>[](w_obs.fair)) => \A i \in 1..MAXN : []<>(Arb \/ w_obs.prog[i])
ServedR == (<>[](r_obs.fair)) => \A i \in 1..MAXN : []<>(Arb \/ r_obs.prog[i])
Served == ServedW /\ ServedR
\* Served without the exemption of arbitrated configurations: violated on the model exactly as on the code (the
\* starvation finding); used by hand to see that the liveness check of this module bites
ServedEvenIfArbitrated == (<>[](w_obs.fair)) => \A i \in 1..MAXN : []<>(w_obs.prog[i])
GapsW == \A i \in 1..MAXN : ((<>[](w_obs.fair)) /\ (\A j \in (1..MAXN) \ {i} : []<>(w_obs.idle[j]))) => []<>(w_obs.prog[i])
GapsR == \A i \in 1..MAXN : ((<>[](r_obs.fair)) /\ (\A j \in (1..MAXN) \ {i} : []<>(r_obs.idle[j]))) => []<>(r_obs.prog[i])
ServedIfGaps == GapsW /\ GapsR
ReadWriteIndependent == ServedIfGaps /\ Served

(* Vacuity guard for ReadWriteIndependent, expected to be VIOLATED (the     *)
(* harness requires a counterexample): a state after a cycle in which a     *)
(* write of one master was stalled (offer held) while another master        *)
(* completed a read handshake, and the symmetric situation.                 *)
WStalled(i) == w_ah[i] # 0 \/ w_wh[i] = 1
RStalled(i) == r_ah[i] # 0
NoReadBesideStalledWrite ==
  ~(\E a, b \in 1..Mc.n : a # b /\ WStalled(a) /\ r_obs.prog[b] /\ ~r_obs.idle[b])
NoWriteBesideStalledRead ==
  ~(\E a, b \in 1..Mc.n : a # b /\ RStalled(a) /\ w_obs.prog[b] /\ ~w_obs.idle[b])
=============================================================================
