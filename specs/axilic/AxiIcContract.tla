---------------------------- MODULE AxiIcContract ----------------------------
(***************************************************************************)
(* L1 contract of an AXI4 (full) arbiter / decoder / shared interconnect / *)
(* crossbar (litex/soc/interconnect/axi/axi_full.py), property C08.        *)
(* The AXI4 twin of AxiLiteIcContract: bursts of 1..2 beats (len 0/1),     *)
(* transaction ids from a 2-value set, W beats with `last`, R beats with   *)
(* `last`.  One direction per configuration:                               *)
(* c.dir = "w": channels AW, W, B;  c.dir = "r": AR, R (W fields unused).   *)
(*                                                                         *)
(* One step = one clock cycle.  N masters, M slaves.                       *)
(*  iv = per master the fields av, tgt, len, id, wv, wl, rr (packed into   *)
(*       one number per port, see MAv ... SRl): av/tgt/len/id offer        *)
(*       a burst address of slave tgt's region (all 0 when av = 0), wv/wl  *)
(*       offer a write data beat (wl = its `last`), rr = ready for the     *)
(*       response;                                                         *)
(*       per slave ar, wr, rv, rid, rl: address ready, data ready,         *)
(*       response valid with its id and (reads) `last`                     *)
(*  o  = per master <<aready, wready, rvalid, rtag, rid, rlast>>;          *)
(*       per slave <<avalid, aaddr, alen, aid, aaux, wvalid, wtag, wlast,  *)
(*       rready>>  (aaux = burst type and size as one number)               *)
(*  Tags: master i uses address base[tgt] + 4*i and write data i; slave j  *)
(*  answers with response code/data tag j.                                 *)
(* c: n, m, k (max outstanding bursts per master and per slave), bases,    *)
(*    dir, cbar, aux, mfree / sfree (per port: 1 = full freedom, 0 =       *)
(*    simple behaviour: a simple master offers address and data together   *)
(*    without gaps and is always ready for responses; a simple slave is    *)
(*    always ready and answers at once), mlens / mids (per master: 0 / 1 = *)
(*    only that burst length / id, 2 = both), earlyw, xslave, gaps         *)
(*    (MasterMoves)                                                        *)
(* Environment assumptions (AXI4): offers are held with their payload      *)
(* until accepted; a master sends its write data bursts in the order of    *)
(* its addresses (there is no WID) with exactly len+1 beats; a slave       *)
(* answers in acceptance order (no re-ordering between ids, no read        *)
(* interleaving), B only after the address and the last data beat.         *)
(***************************************************************************)
EXTENDS Integers, Sequences, FiniteSets, TLC

VARIABLES ah,    \* per master: the address offer it holds <<tgt, len, id>> (<<>> none)
          wh,    \* per master: the data offer it holds <<last>> (<<>> none)
          aq,    \* per master: its accepted, unanswered bursts <<tgt, len, id>> (oldest first)
          rb,    \* per master: R beats already received of its oldest read burst
          wq,    \* per master: write data bursts begun and not yet answered (oldest first):
                 \*   <<slave that took the first beat, beats accepted, 1 if the last beat was accepted>>
          qa,    \* per slave: accepted, unanswered bursts <<master (0 unknown), len, id>> (oldest first)
          sb,    \* per slave: R beats already sent of its oldest read burst
          qw,    \* per slave: complete write data bursts accepted and not yet answered
          qp,    \* per slave: 1 while a write data burst is in progress (latest beat had no `last`)
          rh,    \* per slave: 1 if it holds a response offer
          gp,    \* per master (c.gaps = 1 only): 1 in the cycle after its last outstanding burst was answered: it pauses
          tr,    \* per master (c.gaps = 1 only): bursts it has issued since its last pause
          sav,   \* per slave: address offer <<addr, len, id>> presented by the interconnect in the previous cycle and not accepted
          swv,   \* per slave: data offer <<tag, last>> likewise
          mrv,   \* per master: response offer <<tag, id, last>> presented by the interconnect and not accepted
          obs

cvars == <<ah, wh, aq, rb, wq, qa, sb, qw, qp, rh, gp, tr, sav, swv, mrv, obs>>

MAXN == 3
NMO == 6   \* output fields per master
NSO == 9   \* output fields per slave
Masters(c) == 1..c.n
Slaves(c)  == 1..c.m
HasW(c) == c.dir = "w"
Addr(c, i, t) == c.bases[t] + 4 * i

\* the input vector holds ONE number per port (TLC wraps long tuples when it prints them):
\* master: av + 2*tgt + 8*len + 16*id + 32*wv + 64*wl + 128*rr;  slave: ar + 2*wr + 4*rv + 8*rid + 16*rl
MAv(iv, i)  == iv[i] % 2
MTgt(iv, i) == (iv[i] \div 2) % 4
MLen(iv, i) == (iv[i] \div 8) % 2
MId(iv, i)  == (iv[i] \div 16) % 2
MWv(iv, i)  == (iv[i] \div 32) % 2
MWl(iv, i)  == (iv[i] \div 64) % 2
MRr(iv, i)  == (iv[i] \div 128) % 2
SAr(c, iv, j) == iv[c.n + j] % 2
SWr(c, iv, j) == (iv[c.n + j] \div 2) % 2
SRv(c, iv, j) == (iv[c.n + j] \div 4) % 2
SRi(c, iv, j) == (iv[c.n + j] \div 8) % 2
SRl(c, iv, j) == (iv[c.n + j] \div 16) % 2
OAr(o, i)  == o[NMO * (i - 1) + 1]
OWr(o, i)  == o[NMO * (i - 1) + 2]
ORv(o, i)  == o[NMO * (i - 1) + 3]
ORt(o, i)  == o[NMO * (i - 1) + 4]
ORi(o, i)  == o[NMO * (i - 1) + 5]
ORl(o, i)  == o[NMO * (i - 1) + 6]
OAv(c, o, j)  == o[NMO * c.n + NSO * (j - 1) + 1]
OAa(c, o, j)  == o[NMO * c.n + NSO * (j - 1) + 2]
OAl(c, o, j)  == o[NMO * c.n + NSO * (j - 1) + 3]
OAi(c, o, j)  == o[NMO * c.n + NSO * (j - 1) + 4]
OAx(c, o, j)  == o[NMO * c.n + NSO * (j - 1) + 5]
OWv(c, o, j)  == o[NMO * c.n + NSO * (j - 1) + 6]
OWt(c, o, j)  == o[NMO * c.n + NSO * (j - 1) + 7]
OWl(c, o, j)  == o[NMO * c.n + NSO * (j - 1) + 8]
ORr(c, o, j)  == o[NMO * c.n + NSO * (j - 1) + 9]

---------------------------------------------------------------------------
(* Environment *)
Lens(c, i) == IF c.mlens[i] = 2 THEN {0, 1} ELSE { c.mlens[i] }
Ids(c, i)  == IF c.mids[i] = 2 THEN {0, 1} ELSE { c.mids[i] }
\* the latest write data burst of master i still lacks beats
WOpen(i) == wq[i] # <<>> /\ wq[i][Len(wq[i])][3] = 0

\* c.earlyw = 0: a master offers the first data beat of a burst only together with or after its address offer
\* c.xslave = 0: a master does not address another slave while it has unanswered bursts
\* c.gaps = 1: traffic with gaps - a master issues at most c.k bursts in a row, then waits for all its responses
\*   and pauses for one cycle (what a round-robin arbiter that only moves on an idle bus needs to be fair);
\*   c.gaps = 0: any traffic, including back-to-back bursts for ever
MasterMoves(c, i) ==
  LET canA == Len(aq[i]) < c.k /\ gp[i] = 0 /\ (c.gaps = 1 => tr[i] < c.k)
      Tgts == IF c.xslave = 1 \/ aq[i] = <<>> THEN Slaves(c) ELSE { aq[i][1][1] }
      \* an address that follows its (early) data names the length that data had
      ai   == Len(aq[i]) + 1
      ALens == IF ai <= Len(wq[i])
               THEN { IF wq[i][ai][3] = 1 THEN wq[i][ai][2] - 1 ELSE 1 }
               ELSE Lens(c, i)
      New  == { <<t, l, d>> : t \in Tgts, l \in ALens, d \in Ids(c, i) }
      \* a simple master starts a new burst only when it owes no data
      quiet == HasW(c) => (Len(wq[i]) = Len(aq[i]) /\ ~WOpen(i))
      AOpts == IF ah[i] # <<>> THEN { ah[i] }
               ELSE IF canA /\ (c.mfree[i] = 1 \/ quiet) THEN { <<>> } \cup New ELSE { <<>> }
      \* data beats this master may offer together with address offer a
      wi     == Len(wq[i]) + 1
      known(a) == wi <= Len(aq[i]) + (IF a # <<>> THEN 1 ELSE 0)
      wlen(a)  == IF wi <= Len(aq[i]) THEN aq[i][wi][2] ELSE a[2]
      Beats(a) == IF ~HasW(c) THEN {}
                  ELSE IF WOpen(i) THEN { <<1>> }                     \* the second and last beat
                  ELSE IF Len(wq[i]) >= c.k THEN {}
                  ELSE IF known(a) THEN { <<IF wlen(a) = 0 THEN 1 ELSE 0>> }
                  ELSE IF c.earlyw = 1 /\ c.mfree[i] = 1 /\ gp[i] = 0 THEN { <<1 - l>> : l \in Lens(c, i) }
                  ELSE {}
      WOpts(a) == IF wh[i] # <<>> THEN { wh[i] }
                  ELSE IF c.mfree[i] = 1 THEN { <<>> } \cup Beats(a)
                  ELSE IF Beats(a) # {} THEN Beats(a) ELSE { <<>> }   \* simple master: no gaps
      ROpts == IF c.mfree[i] = 1 THEN {0, 1} ELSE {1}
      Enc(a, w, r) == << (IF a = <<>> THEN 0 ELSE 1 + 2 * a[1] + 8 * a[2] + 16 * a[3])
                         + (IF w = <<>> THEN 0 ELSE 32 + 64 * w[1]) + 128 * r >>
  IN UNION { { Enc(a, w, r) : w \in WOpts(a), r \in ROpts } : a \in AOpts }

SOwed(c, j) == qa[j] # <<>> /\ (HasW(c) => qw[j] >= 1)
SCanA(c, j) == Len(qa[j]) < c.k
SCanW(c, j) == HasW(c) /\ (qp[j] = 1 \/ qw[j] < c.k)
\* the response the slave owes: id of its oldest burst; reads: `last` on the final beat only
SResp(c, j) == 4 + 8 * qa[j][1][3] + 16 * (IF HasW(c) THEN 0 ELSE (IF sb[j] >= qa[j][1][2] THEN 1 ELSE 0))
SlaveMoves(c, j) ==
  LET must == rh[j] = 1
      may  == SOwed(c, j)
  IN IF c.sfree[j] = 1
     THEN { <<a + 2 * w + r>> : a \in (IF SCanA(c, j) THEN {0, 1} ELSE {0}),
                               w \in (IF SCanW(c, j) THEN {0, 1} ELSE {0}),
                               r \in (IF must THEN { SResp(c, j) }
                                      ELSE IF may THEN { 0, SResp(c, j) } ELSE { 0 }) }
     ELSE { << (IF SCanA(c, j) THEN 1 ELSE 0) + (IF SCanW(c, j) THEN 2 ELSE 0)
               + (IF must \/ may THEN SResp(c, j) ELSE 0) >> }

RECURSIVE MProd(_, _), SProd(_, _)
MProd(c, i) == IF i > c.n THEN { <<>> }
               ELSE { mv \o rest : mv \in MasterMoves(c, i), rest \in MProd(c, i + 1) }
SProd(c, j) == IF j > c.m THEN { <<>> }
               ELSE { sv \o rest : sv \in SlaveMoves(c, j), rest \in SProd(c, j + 1) }
Inputs(c) == { a \o b : a \in MProd(c, 1), b \in SProd(c, 1) }

---------------------------------------------------------------------------
CInit ==
  /\ ah = [i \in 1..MAXN |-> <<>>] /\ wh = [i \in 1..MAXN |-> <<>>]
  /\ aq = [i \in 1..MAXN |-> <<>>] /\ rb = [i \in 1..MAXN |-> 0]
  /\ wq = [i \in 1..MAXN |-> <<>>]
  /\ qa = [j \in 1..MAXN |-> <<>>] /\ sb = [j \in 1..MAXN |-> 0]
  /\ qw = [j \in 1..MAXN |-> 0] /\ qp = [j \in 1..MAXN |-> 0]
  /\ rh = [j \in 1..MAXN |-> 0]
  /\ gp = [i \in 1..MAXN |-> 0] /\ tr = [i \in 1..MAXN |-> 0]
  /\ sav = [j \in 1..MAXN |-> <<>>] /\ swv = [j \in 1..MAXN |-> <<>>]
  /\ mrv = [i \in 1..MAXN |-> <<>>]
  /\ obs = [okroute |-> TRUE, okw |-> TRUE, okonce |-> TRUE, okresp |-> TRUE, okfrozen |-> TRUE,
            okhold |-> TRUE, okholdw |-> TRUE, prog |-> [i \in 1..MAXN |-> TRUE], fair |-> TRUE]

CStep(c, iv, o) ==
  LET \* ---- handshakes seen at the masters
      mAfire(i) == MAv(iv, i) = 1 /\ OAr(o, i) = 1
      mWfire(i) == MWv(iv, i) = 1 /\ OWr(o, i) = 1
      mRfire(i) == ORv(o, i) = 1 /\ MRr(iv, i) = 1
      \* the response that completes a burst: B, or the R beat with `last`
      mDone(i)  == mRfire(i) /\ (HasW(c) \/ ORl(o, i) = 1)
      \* ---- handshakes seen at the slaves (the environment raises rv only when a response is owed)
      sRvalid(j) == SRv(c, iv, j) = 1
      sAfire(j) == OAv(c, o, j) = 1 /\ SAr(c, iv, j) = 1
      sWfire(j) == OWv(c, o, j) = 1 /\ SWr(c, iv, j) = 1
      sRfire(j) == sRvalid(j) /\ ORr(c, o, j) = 1
      sDone(j)  == sRfire(j) /\ (HasW(c) \/ SRl(c, iv, j) = 1)
      \* master whose address offer (address, length, id, burst type/size) slave j sees
      AMaster(j) == { i \in Masters(c) : /\ MAv(iv, i) = 1 /\ MTgt(iv, i) = j
                                         /\ OAa(c, o, j) = Addr(c, i, j) /\ OAl(c, o, j) = MLen(iv, i)
                                         /\ OAi(c, o, j) = MId(iv, i) /\ OAx(c, o, j) = c.aux }
      \* ---- C08 clauses
      \* each address handshake at a slave is the handshake of exactly one master whose address decodes to it
      okroute ==
        /\ \A j \in Slaves(c) : OAv(c, o, j) = 1 => AMaster(j) # {}
        /\ \A j \in Slaves(c) : sAfire(j) => \E i \in AMaster(j) : mAfire(i)
        /\ \A i \in Masters(c) : mAfire(i) =>
              Cardinality({ j \in Slaves(c) : sAfire(j) /\ i \in AMaster(j) }) = 1
      \* data: a beat accepted from master i is accepted by exactly one slave, which sees i's tag and `last`
      WSlaves(i) == { j \in Slaves(c) : sWfire(j) /\ OWt(c, o, j) = i }
      okonce ==
        /\ \A i \in Masters(c) : mWfire(i) =>
              (Cardinality(WSlaves(i)) = 1 /\ \A j \in WSlaves(i) : OWl(c, o, j) = MWl(iv, i))
        /\ \A j \in Slaves(c) : sWfire(j) => (OWt(c, o, j) \in Masters(c) /\ mWfire(OWt(c, o, j)))
        /\ \A j \in Slaves(c) : OWv(c, o, j) = 1 =>
              (OWt(c, o, j) \in Masters(c) /\ MWv(iv, OWt(c, o, j)) = 1 /\ OWl(c, o, j) = MWl(iv, OWt(c, o, j)))
      \* "W follows its AW", per burst: the k-th data burst of a master goes, with all its beats, to the
      \* slave of its k-th address
      cont(i) == WOpen(i)
      wix(i)  == IF cont(i) THEN Len(wq[i]) ELSE Len(wq[i]) + 1     \* position of this beat's burst among the unanswered ones
      \* where this beat has to go (0: not determined yet - data ahead of its address)
      wtgt(i) == IF cont(i) THEN wq[i][Len(wq[i])][1]                \* a burst is not torn between slaves
                 ELSE IF wix(i) <= Len(aq[i]) THEN aq[i][wix(i)][1]
                 ELSE IF wix(i) = Len(aq[i]) + 1 /\ mAfire(i) THEN MTgt(iv, i) ELSE 0
      okw1 == \A i \in Masters(c) : (mWfire(i) /\ wtgt(i) # 0) => WSlaves(i) = { wtgt(i) }
      \* an address accepted after data of its burst: must name the slave that took that data
      okw2 == \A i \in Masters(c) : (mAfire(i) /\ Len(aq[i]) + 1 <= Len(wq[i])) => wq[i][Len(aq[i]) + 1][1] = MTgt(iv, i)
      \* responses: in order, from the slave, to the issuing master only, with the burst's id; reads: one
      \* beat per data transfer, `last` on the final beat only
      okresp ==
        /\ \A j \in Slaves(c) : sRfire(j) =>
              ( /\ qa[j] # <<>> /\ qa[j][1][1] \in Masters(c)
                /\ LET i == qa[j][1][1] IN
                     /\ mRfire(i) /\ ORt(o, i) = j /\ ORi(o, i) = SRi(c, iv, j) /\ ORl(o, i) = SRl(c, iv, j)
                     /\ aq[i] # <<>> /\ aq[i][1][1] = j /\ aq[i][1][3] = ORi(o, i)
                     /\ (~HasW(c) => ORl(o, i) = (IF rb[i] >= aq[i][1][2] THEN 1 ELSE 0)) )
        /\ \A i \in Masters(c) : mRfire(i) =>
              Cardinality({ j \in Slaves(c) : sRfire(j) /\ qa[j] # <<>> /\ qa[j][1][1] = i }) = 1
        /\ \A i \in Masters(c) : ORv(o, i) = 1 =>
              \E j \in Slaves(c) : /\ sRvalid(j) /\ qa[j] # <<>> /\ qa[j][1][1] = i /\ ORt(o, i) = j
                                   /\ ORi(o, i) = SRi(c, iv, j) /\ ORl(o, i) = SRl(c, iv, j)
      \* new state of the queues: a burst stays outstanding until its B / its LAST R beat
      aq1 == [i \in 1..MAXN |->
                LET a == IF i \in Masters(c) /\ mDone(i) /\ aq[i] # <<>> THEN Tail(aq[i]) ELSE aq[i]
                IN IF i \in Masters(c) /\ mAfire(i) THEN Append(a, <<MTgt(iv, i), MLen(iv, i), MId(iv, i)>>) ELSE a]
      qa1 == [j \in 1..MAXN |->
                LET a == IF j \in Slaves(c) /\ sDone(j) /\ qa[j] # <<>> THEN Tail(qa[j]) ELSE qa[j]
                    ms == IF j \in Slaves(c) /\ sAfire(j) THEN AMaster(j) ELSE {}
                IN IF j \in Slaves(c) /\ sAfire(j)
                   THEN Append(a, <<IF ms # {} THEN CHOOSE i \in ms : TRUE ELSE 0, OAl(c, o, j), OAi(c, o, j)>>) ELSE a]
      \* grant / select frozen while responses are outstanding
      Outst(S) == UNION { { qa1[j][x][1] : x \in 1..Len(qa1[j]) } : j \in S } \ {0}
      okfrozen ==
        /\ (c.xslave = 0 => \A i \in Masters(c) : \A x, y \in 1..Len(aq1[i]) : aq1[i][x][1] = aq1[i][y][1])
        /\ IF c.cbar = 1 THEN \A j \in Slaves(c) : Cardinality(Outst({j})) <= 1
                         ELSE Cardinality(Outst(Slaves(c))) <= 1
      \* valid/payload hold on the channels the interconnect drives
      okhold ==
        /\ \A j \in Slaves(c) : sav[j] # <<>> =>
              (OAv(c, o, j) = 1 /\ <<OAa(c, o, j), OAl(c, o, j), OAi(c, o, j)>> = sav[j])
        /\ \A i \in Masters(c) : mrv[i] # <<>> => (ORv(o, i) = 1 /\ <<ORt(o, i), ORi(o, i), ORl(o, i)>> = mrv[i])
      okholdw ==
        \A j \in Slaves(c) : swv[j] # <<>> => (OWv(c, o, j) = 1 /\ <<OWt(c, o, j), OWl(c, o, j)>> = swv[j])
      \* ---- write data bookkeeping of master i
      wq1(i) == LET a == IF mDone(i) /\ wq[i] # <<>> /\ HasW(c) THEN 1 ELSE 0       \* B answers (drops) the oldest burst
                    q == wq[i]
                    n == Len(q)
                    sl == IF WSlaves(i) # {} THEN CHOOSE j \in WSlaves(i) : TRUE ELSE 0
                    q2 == IF ~mWfire(i) THEN q
                          ELSE IF cont(i) THEN [q EXCEPT ![n] = <<q[n][1], q[n][2] + 1, MWl(iv, i)>>]
                          ELSE Append(q, <<sl, 1, MWl(iv, i)>>)
                IN IF a = 1 THEN Tail(q2) ELSE q2
      \* a master owes data (for an accepted or offered address) / an address (for data already sent)
      wOwed(i) == HasW(c) /\ (WOpen(i) \/ Len(wq[i]) < Len(aq[i]) + (IF MAv(iv, i) = 1 THEN 1 ELSE 0))
      aOwed(i) == HasW(c) /\ Len(wq[i]) > Len(aq[i])
      nothing(i) == MAv(iv, i) = 0 /\ MWv(iv, i) = 0 /\ aq[i] = <<>> /\ wq[i] = <<>>
  IN
  /\ ah' = [i \in 1..MAXN |-> IF i \in Masters(c) /\ MAv(iv, i) = 1 /\ ~mAfire(i)
                              THEN <<MTgt(iv, i), MLen(iv, i), MId(iv, i)>> ELSE <<>>]
  /\ wh' = [i \in 1..MAXN |-> IF i \in Masters(c) /\ MWv(iv, i) = 1 /\ ~mWfire(i) THEN <<MWl(iv, i)>> ELSE <<>>]
  /\ aq' = aq1
  /\ rb' = [i \in 1..MAXN |-> IF i \notin Masters(c) \/ HasW(c) \/ ~mRfire(i) THEN rb[i]
                              ELSE IF ORl(o, i) = 1 THEN 0 ELSE (IF rb[i] >= 2 THEN 2 ELSE rb[i] + 1)]
  /\ wq' = [i \in 1..MAXN |-> IF i \notin Masters(c) \/ ~HasW(c) THEN <<>> ELSE wq1(i)]
  /\ qa' = qa1
  /\ sb' = [j \in 1..MAXN |-> IF j \notin Slaves(c) \/ HasW(c) \/ ~sRfire(j) THEN sb[j]
                              ELSE IF SRl(c, iv, j) = 1 THEN 0 ELSE (IF sb[j] >= 2 THEN 2 ELSE sb[j] + 1)]
  /\ qw' = [j \in 1..MAXN |-> IF j \notin Slaves(c) THEN 0
                              ELSE qw[j] + (IF sWfire(j) /\ OWl(c, o, j) = 1 THEN 1 ELSE 0)
                                         - (IF sDone(j) /\ qw[j] > 0 THEN 1 ELSE 0)]
  /\ qp' = [j \in 1..MAXN |-> IF j \notin Slaves(c) THEN 0
                              ELSE IF sWfire(j) THEN 1 - OWl(c, o, j) ELSE qp[j]]
  /\ rh' = [j \in 1..MAXN |-> IF j \in Slaves(c) /\ sRvalid(j) /\ ~sRfire(j) THEN 1 ELSE 0]
  /\ gp' = [i \in 1..MAXN |-> IF i \in Masters(c) /\ c.gaps = 1 /\ mDone(i) /\ aq1[i] = <<>>
                                  /\ (HasW(c) => wq1(i) = <<>>) /\ MAv(iv, i) = 0 /\ MWv(iv, i) = 0 THEN 1 ELSE 0]
  /\ tr' = [i \in 1..MAXN |-> IF i \notin Masters(c) \/ c.gaps = 0 \/ gp[i] = 1 THEN 0
                              ELSE IF MAv(iv, i) = 1 /\ ah[i] = <<>> THEN tr[i] + 1 ELSE tr[i]]   \* a new address offer
  /\ sav' = [j \in 1..MAXN |-> IF j \in Slaves(c) /\ OAv(c, o, j) = 1 /\ ~sAfire(j)
                               THEN <<OAa(c, o, j), OAl(c, o, j), OAi(c, o, j)>> ELSE <<>>]
  /\ swv' = [j \in 1..MAXN |-> IF j \in Slaves(c) /\ OWv(c, o, j) = 1 /\ ~sWfire(j)
                               THEN <<OWt(c, o, j), OWl(c, o, j)>> ELSE <<>>]
  /\ mrv' = [i \in 1..MAXN |-> IF i \in Masters(c) /\ ORv(o, i) = 1 /\ ~mRfire(i)
                               THEN <<ORt(o, i), ORi(o, i), ORl(o, i)>> ELSE <<>>]
  /\ obs' = [okroute |-> okroute, okw |-> okw1 /\ okw2, okonce |-> okonce, okresp |-> okresp,
             okfrozen |-> okfrozen, okhold |-> okhold, okholdw |-> okholdw,
             \* master i made progress in this cycle (some handshake) or has nothing pending
             prog |-> [i \in 1..MAXN |-> i \notin Masters(c) \/ mAfire(i) \/ mWfire(i) \/ mRfire(i) \/ nothing(i)],
             \* cooperation in this cycle: slaves ready whenever they have room and answering whenever they owe a
             \* response, masters accepting responses and not withholding the other half of a write
             fair |-> /\ \A j \in Slaves(c) : /\ (SCanA(c, j) => SAr(c, iv, j) = 1)
                                              /\ (SCanW(c, j) => SWr(c, iv, j) = 1)
                                              /\ ((SOwed(c, j) \/ rh[j] = 1) => SRv(c, iv, j) = 1)
                      /\ \A i \in Masters(c) : /\ MRr(iv, i) = 1
                                                /\ (wOwed(i) => MWv(iv, i) = 1)
                                                /\ (aOwed(i) => MAv(iv, i) = 1)]

---------------------------------------------------------------------------
RoutedByAddress        == obs.okroute   \* an accepted burst address (with len, id, type, size) reaches exactly one slave, chosen by the address
WFollowsItsAW          == obs.okw       \* every beat of a write data burst goes to the slave of its address, whatever the AW/W order
DataExactlyOnce        == obs.okonce    \* per beat, with its `last`
ResponseToIssuerInOrder == obs.okresp   \* B / R beats reach the issuing master exactly once, in issue order, with id; `last` on the final R beat only
FrozenWhileOutstanding == obs.okfrozen  \* grant and slave selection do not change until the B / the LAST R beat
ValidHold              == obs.okhold    \* address offers at slaves, responses at masters
WValidHold             == obs.okholdw   \* write data offers at slaves
=============================================================================
