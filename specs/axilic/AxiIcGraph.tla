----------------------------- MODULE AxiIcGraph -----------------------------
(* G-mode product of AxiIcContract (environment + monitor) with the transition *)
(* graph of the real axi_full.py netlist (same driver as AxiLiteIcGraph)       *)
EXTENDS AxiIcContract, Json, IOUtils, GraphLookup
G == JsonDeserialize(IOEnv.GRAPH)
NDuts == Len(G.duts)
VARIABLES d, s,
          ph   \* toggles on a step that changes nothing else: a hung implementation (fixpoint of the product)
               \* must be an infinite NON-stuttering behaviour, or WF_vars(Next) would let TLC walk away from it
vars == <<d, s, ah, wh, aq, rb, wq, qa, sb, qw, qp, rh, gp, tr, sav, swv, mrv, obs, ph>>
C == G.duts[d].cfg
Init == /\ d \in 1..NDuts /\ s = 0 /\ ph = 0 /\ CInit
Step(iv) ==
  /\ s >= 0
  /\ LET e == GLookup(G.duts[d].succ[s + 1], iv) IN
       IF e # <<>>
       THEN /\ s' = e[3] /\ d' = d
            /\ CStep(C, iv, e[2])
            /\ ph' = IF e[3] = s /\ cvars' = cvars THEN 1 - ph ELSE 0
       ELSE /\ PrintT(<<"NEED", d, s, iv>>)
            /\ s' = -1 /\ d' = d /\ ph' = 0 /\ UNCHANGED cvars
Next == \E iv \in Inputs(C) : Step(iv)
Spec == Init /\ [][Next]_vars /\ WF_vars(Next)
Alias == [d |-> d, s |-> s, obs |-> obs, aq |-> aq, qa |-> qa, wq |-> wq, rb |-> rb,
          iv |-> CHOOSE iv \in Inputs(C) : Step(iv)]
(* every requesting master is eventually served: with slaves and masters that cooperate   *)
(* from some point on, every master with something pending keeps completing handshakes    *)
Served == (<>[](obs.fair)) => \A i \in 1..MAXN : []<>(obs.prog[i])
(* DUTs with a round-robin arbiter that only moves on an idle bus are judged with the      *)
(* environment flag gaps = 1 (see MasterMoves); with gaps = 0 they starve a master under    *)
(* back-to-back traffic (listed finding)                                                    *)
=============================================================================
