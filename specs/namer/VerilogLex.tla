----------------------------- MODULE VerilogLex -----------------------------
(* Lexical side of property C02: what a legal, non-reserved Verilog          *)
(* identifier is.  Independent of the code: the keyword list below is a      *)
(* transcription of IEEE Std 1800-2017, Annex B, Table B.1 (grouped by       *)
(* initial letter; 248 keywords), NOT a copy of the set in                   *)
(* litex/gen/fhdl/verilog.py.  TLC handles Len, \o and SubSeq on strings, so  *)
(* names cross the Python/TLA+ boundary as plain strings.                    *)
EXTENDS Naturals, Sequences, FiniteSets

Reserved ==
  { "accept_on", "alias", "always", "always_comb", "always_ff", "always_latch", "and", "assert",
    "assign", "assume", "automatic" } \cup
  { "before", "begin", "bind", "bins", "binsof", "bit", "break", "buf", "bufif0", "bufif1", "byte" } \cup
  { "case", "casex", "casez", "cell", "chandle", "checker", "class", "clocking", "cmos", "config",
    "const", "constraint", "context", "continue", "cover", "covergroup", "coverpoint", "cross" } \cup
  { "deassign", "default", "defparam", "design", "disable", "dist", "do" } \cup
  { "edge", "else", "end", "endcase", "endchecker", "endclass", "endclocking", "endconfig",
    "endfunction", "endgenerate", "endgroup", "endinterface", "endmodule", "endpackage",
    "endprimitive", "endprogram", "endproperty", "endspecify", "endsequence", "endtable", "endtask",
    "enum", "event", "eventually", "expect", "export", "extends", "extern" } \cup
  { "final", "first_match", "for", "force", "foreach", "forever", "fork", "forkjoin", "function" } \cup
  { "generate", "genvar", "global" } \cup
  { "highz0", "highz1" } \cup
  { "if", "iff", "ifnone", "ignore_bins", "illegal_bins", "implements", "implies", "import", "incdir",
    "include", "initial", "inout", "input", "inside", "instance", "int", "integer", "interconnect",
    "interface", "intersect" } \cup
  { "join", "join_any", "join_none" } \cup
  { "large", "let", "liblist", "library", "local", "localparam", "logic", "longint" } \cup
  { "macromodule", "matches", "medium", "modport", "module" } \cup
  { "nand", "negedge", "nettype", "new", "nexttime", "nmos", "nor", "noshowcancelled", "not",
    "notif0", "notif1", "null" } \cup
  { "or", "output" } \cup
  { "package", "packed", "parameter", "pmos", "posedge", "primitive", "priority", "program",
    "property", "protected", "pull0", "pull1", "pulldown", "pullup", "pulsestyle_ondetect",
    "pulsestyle_onevent", "pure" } \cup
  { "rand", "randc", "randcase", "randsequence", "rcmos", "real", "realtime", "ref", "reg",
    "reject_on", "release", "repeat", "restrict", "return", "rnmos", "rpmos", "rtran", "rtranif0",
    "rtranif1" } \cup
  { "s_always", "s_eventually", "s_nexttime", "s_until", "s_until_with", "scalared", "sequence",
    "shortint", "shortreal", "showcancelled", "signed", "small", "soft", "solve", "specify",
    "specparam", "static", "string", "strong", "strong0", "strong1", "struct", "super", "supply0",
    "supply1", "sync_accept_on", "sync_reject_on" } \cup
  { "table", "tagged", "task", "this", "throughout", "time", "timeprecision", "timeunit", "tran",
    "tranif0", "tranif1", "tri", "tri0", "tri1", "triand", "trior", "trireg", "type", "typedef" } \cup
  { "union", "unique", "unique0", "unsigned", "until", "until_with", "untyped", "use", "uwire" } \cup
  { "var", "vectored", "virtual", "void" } \cup
  { "wait", "wait_order", "wand", "weak", "weak0", "weak1", "while", "wildcard", "wire", "with",
    "within", "wor" } \cup
  { "xnor", "xor" }

ASSUME ReservedCount == Cardinality(Reserved) = 248

Lower  == { "a", "b", "c", "d", "e", "f", "g", "h", "i", "j", "k", "l", "m",
            "n", "o", "p", "q", "r", "s", "t", "u", "v", "w", "x", "y", "z" }
Upper  == { "A", "B", "C", "D", "E", "F", "G", "H", "I", "J", "K", "L", "M",
            "N", "O", "P", "Q", "R", "S", "T", "U", "V", "W", "X", "Y", "Z" }
Digit  == { "0", "1", "2", "3", "4", "5", "6", "7", "8", "9" }
IdHead == Lower \cup Upper \cup { "_" }
IdTail == IdHead \cup Digit \cup { "$" }

(* IEEE 1364-2005 3.7 / 1800-2017 5.6 simple identifier: [a-zA-Z_][a-zA-Z0-9_$]*      *)
IsIdent(s) == /\ Len(s) >= 1
              /\ SubSeq(s, 1, 1) \in IdHead
              /\ \A i \in 2..Len(s) : SubSeq(s, i, i) \in IdTail

ASSUME LexExamples ==
  /\ IsIdent("x_1") /\ IsIdent("_a$b") /\ IsIdent("A9")
  /\ ~IsIdent("") /\ ~IsIdent("1x") /\ ~IsIdent("a b") /\ ~IsIdent("$a") /\ ~IsIdent("a-b")
  /\ ~IsIdent("      repeat")
  /\ "repeat" \in Reserved /\ "union" \in Reserved /\ "uwire" \in Reserved /\ "x" \notin Reserved
=============================================================================
