---------------------------- MODULE NamerInputs ----------------------------
(* R-mode for C02: the INPUT SPACE of the hierarchical namer, enumerated by  *)
(* TLC and executed by the harness on the real build_signal_namespace.       *)
(*                                                                           *)
(* A case is a sequence of signal descriptors in creation (= duid) order:    *)
(*   bt   back-trace: 1..maxbt steps <<name, number>> (what migen's tracer    *)
(*        records: variable / class name and an instance number)             *)
(*   ov   name_override, "" = none                                           *)
(*   rel  0 = no `related` signal, else the index of an EARLIER signal of the *)
(*        case (chains no longer than maxchain)                              *)
(* A run of a case: the order of get_name requests (every signal at least    *)
(* once, repetition allowed), dr = 1: the Signal objects are created in      *)
(* reverse order (duid order reversed), cl = 1: the signals are handed to    *)
(* build_signal_namespace as a reversed list instead of a set.               *)
(*                                                                           *)
(* Sub-spaces (constant Space) are enumerated exhaustively (Mode = "all") or, *)
(* for the big mixed space, decoded from raw entropy words supplied by the   *)
(* harness from VERIF_SEED (Mode = "sample"; every decision about what a     *)
(* word means is made below, and SampleInSpace checks the decoder stays      *)
(* inside the declared space).                                               *)
EXTENDS Integers, Sequences, FiniteSets, TLC, SequencesExt, Json, IOUtils, VerilogLex

CONSTANTS Space, Mode, Scale          \* Scale: 0 = quick bounds, 1 = thorough bounds

ReservedSeq == SetToSeq(Reserved)

(* names that look like generated names, keywords, suffixed keywords, the three      *)
(* keywords whose literals are mistyped in the implementation, and plain names        *)
AdvSmall == << "x", "x_1", "x_1_1", "reg", "reg_1", "repeat", "y" >>
AdvFull  == << "x", "x_1", "x_1_1", "x_2", "reg", "reg_1", "wire", "repeat", "union", "uwire", "y" >>
AdvMixed == AdvFull \o << "a", "b", "a_b", "a0", "a_0", "a0_b", "b_1" >>

Spaces ==
  [ override  |-> [maxsig |-> IF Scale = 0 THEN 3 ELSE 4, maxbt |-> 1, names |-> <<"a">>, nums |-> <<0>>,
                   ovs |-> IF Scale = 0 THEN AdvSmall ELSE AdvFull, ovreq |-> FALSE, maxchain |-> 0, full |-> 3],
    hierarchy |-> [maxsig |-> 3, maxbt |-> 2, names |-> <<"a", "b">>, nums |-> IF Scale = 0 THEN <<0, 1>> ELSE <<0, 1, 2>>,
                   ovs |-> <<>>, ovreq |-> FALSE, maxchain |-> 0, full |-> 0],
    deep      |-> [maxsig |-> 2, maxbt |-> 3, names |-> <<"a", "b">>, nums |-> IF Scale = 0 THEN <<0, 1>> ELSE <<0, 1, 2>>,
                   ovs |-> <<>>, ovreq |-> FALSE, maxchain |-> 0, full |-> 0],
    related   |-> [maxsig |-> IF Scale = 0 THEN 3 ELSE 4, maxbt |-> 1, names |-> <<"a", "b", "a_b">>, nums |-> <<0, 1>>,
                   ovs |-> <<>>, ovreq |-> FALSE, maxchain |-> 2, full |-> 0],
    reserved  |-> [maxsig |-> 1, maxbt |-> 1, names |-> <<"a">>, nums |-> <<0>>,
                   ovs |-> ReservedSeq, ovreq |-> TRUE, maxchain |-> 0, full |-> 3],
    resattr   |-> [maxsig |-> 1, maxbt |-> 1, names |-> ReservedSeq, nums |-> <<0>>,
                   ovs |-> <<>>, ovreq |-> FALSE, maxchain |-> 0, full |-> 3],
    mixed     |-> [maxsig |-> 5, maxbt |-> 3, names |-> <<"a", "b">>, nums |-> <<0, 1, 2>>,
                   ovs |-> AdvMixed, ovreq |-> FALSE, maxchain |-> 2, full |-> 0] ]

P == Spaces[Space]

----------------------------------------------------------------------------
(* the space *)
SeqRange(q) == {q[i] : i \in DOMAIN q}
Steps  == {<<P.names[i], P.nums[j]>> : i \in DOMAIN P.names, j \in DOMAIN P.nums}
BTs    == UNION {[1..k -> Steps] : k \in 1..P.maxbt}
OvSet  == SeqRange(P.ovs) \cup (IF P.ovreq THEN {} ELSE {""})
Desc   == [bt : BTs, ov : OvSet, rel : 0..(IF P.maxchain = 0 THEN 0 ELSE P.maxsig - 1)]

RECURSIVE ChainDepth(_, _)
ChainDepth(c, i) == IF c[i].rel = 0 THEN 0 ELSE 1 + ChainDepth(c, c[i].rel)

IsCase(c) == /\ Len(c) \in 1..P.maxsig
             /\ \A i \in DOMAIN c : /\ c[i] \in Desc
                                    /\ c[i].rel < i
                                    /\ ChainDepth(c, i) <= P.maxchain
(* (an operator with a parameter on purpose: TLC pre-evaluates zero-arity constant definitions) *)
CasesOfLen(k) == {c \in [1..k -> Desc] : IsCase(c)}

----------------------------------------------------------------------------
(* runs: request order, creation order, collection order *)
Id(k)    == [i \in 1..k |-> i]
Perms(k) == {q \in [1..k -> 1..k] : SeqRange(q) = 1..k}
OneRep(k) == {q \in [1..(k + 1) -> 1..k] : SeqRange(q) = 1..k}
Canon(k) == [req |-> Id(k), dr |-> 0, cl |-> 0]
IsRun(k, r) == /\ SeqRange(r.req) = 1..k /\ r.dr \in 0..1 /\ r.cl \in 0..1
RunsFull(k) == {[req |-> q, dr |-> 0, cl |-> 0] : q \in Perms(k) \cup OneRep(k)}
                 \cup {[req |-> Reverse(Id(k)), dr |-> 1, cl |-> 1], [req |-> Id(k), dr |-> 1, cl |-> 0]}
RunsLite(k) == {Canon(k),
                [req |-> Reverse(Id(k)) \o <<k>>, dr |-> 1, cl |-> 1],
                [req |-> Id(k) \o <<1>>, dr |-> 0, cl |-> 1]}
(* variant 0 is always the canonical run *)
RunSeq(k) == <<Canon(k)>> \o SetToSeq((IF k <= P.full THEN RunsFull(k) ELSE RunsLite(k)) \ {Canon(k)})
RunTable  == [k \in 1..P.maxsig |-> RunSeq(k)]

----------------------------------------------------------------------------
(* sampling: decode a case and two extra runs from a sequence r of entropy words      *)
Rnd == JsonDeserialize(IOEnv.RND)
W(r, i)        == r[((i - 1) % Len(r)) + 1]
Pick(q, w)     == q[1 + (w % Len(q))]
(* a tuple, not [k \in .. |-> ..]: TLC evaluates tuples eagerly, so the table is built once *)
PermTable      == << SetToSeq(Perms(1)), SetToSeq(Perms(2)), SetToSeq(Perms(3)), SetToSeq(Perms(4)), SetToSeq(Perms(5)) >>
ASSUME P.maxsig <= 5

(* signal j uses the 12 words after offset Off(j).  `related` chains are bounded without *)
(* recursion: every signal draws a raw level 0..maxchain and may only point to an earlier *)
(* signal of the level below, so its chain is never longer than its level                  *)
Off(j)       == 4 + 12 * (j - 1)
Lev(r, j)    == IF P.maxchain = 0 THEN 0 ELSE W(r, Off(j) + 10) % (P.maxchain + 1)
Below(r, j)  == SelectSeq(Id(j - 1), LAMBDA t : Lev(r, t) = Lev(r, j) - 1)
SampleDesc(r, j) ==
  LET o    == Off(j)
      len  == 1 + (W(r, o + 1) % P.maxbt)
      bt   == [q \in 1..len |-> <<Pick(P.names, W(r, o + 1 + q)), Pick(P.nums, W(r, o + 4 + q))>>]
      ov   == IF Len(P.ovs) > 0 /\ (P.ovreq \/ W(r, o + 8) % 3 = 0) THEN Pick(P.ovs, W(r, o + 9)) ELSE ""
      rel  == IF Lev(r, j) = 0 \/ Below(r, j) = <<>> THEN 0 ELSE Pick(Below(r, j), W(r, o + 11))
  IN [bt |-> bt, ov |-> ov, rel |-> rel]

SampleCase(r) == [j \in 1..(1 + (W(r, 1) % P.maxsig)) |-> SampleDesc(r, j)]

SampleRun(r, k, o) ==
  LET p   == Pick(PermTable[k], W(r, o + 1))
      req == IF W(r, o + 2) % 2 = 0 THEN p
             ELSE InsertAt(p, 1 + (W(r, o + 3) % (k + 1)), p[1 + (W(r, o + 4) % k)])
  IN [req |-> req, dr |-> W(r, o + 5) % 2, cl |-> W(r, o + 6) % 2]

SampleRuns(r, k) == <<Canon(k), SampleRun(r, k, 70), SampleRun(r, k, 80)>>

----------------------------------------------------------------------------
VARIABLES idx, case
vars == <<idx, case>>

InitAll == /\ idx = 0
           /\ PrintT(<<"RUNS", RunTable>>)           \* once, before the enumeration branches
           /\ \E k \in 1..P.maxsig : case \in CasesOfLen(k)
           /\ PrintT(<<"CASE", case>>)

InitSample == /\ idx \in 1..Len(Rnd)
              /\ case = SampleCase(Rnd[idx])
              /\ PrintT(<<"SCASE", idx, case, SampleRuns(Rnd[idx], Len(case))>>)

Init == IF Mode = "all" THEN InitAll ELSE InitSample
Next == FALSE /\ UNCHANGED vars

(* the sample decoder never leaves the declared space, and every run is a legal run *)
SampleInSpace == /\ IsCase(case)
                 /\ Mode = "sample" => \A i \in 1..3 : IsRun(Len(case), SampleRuns(Rnd[idx], Len(case))[i])
RunsLegal == Mode = "all" => \A k \in 1..P.maxsig : \A i \in DOMAIN RunTable[k] : IsRun(k, RunTable[k][i])
=============================================================================
