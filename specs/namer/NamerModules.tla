---------------------------- MODULE NamerModules ----------------------------
(* R-mode for C02, end to end: the space of small generated designs that go  *)
(* through the real litex.gen.fhdl.verilog.convert().  A shape describes a    *)
(* Python program (the harness only renders it as source text):              *)
(*                                                                           *)
(*   class Leaf:   one Signal per word of `leaf` (self.<word> = Signal()),   *)
(*                 optionally a signal with name_override `lov` and a signal *)
(*                 `r` created with related = the first leaf signal          *)
(*   `depth` wrapper classes Wrap1..Wrapdepth, each holding `fan` children   *)
(*   class Top:    `fan` children; own signals `top` (attribute names), `tov` *)
(*                 (name_overrides), memories `mems` (attribute names, one   *)
(*                 write port each), instances `insts` (name= argument, "" =  *)
(*                 default), a sys clock domain                              *)
(*   bind  how children are bound:  "attr" self.submodules.c<i> = Child()    *)
(*                                  "loop" for ..: s = Child(); self.submodules += s *)
(*                                  "anon" self.submodules += [Child() for ..] *)
(*   ios   which signals are module ports: "top" = clock, reset and Top's own *)
(*         signals; "leaf" = also the signals of the first leaf instance;    *)
(*         "all" = also those of every leaf instance (convert() names ports  *)
(*         by their attribute name only, so equal names meet)                *)
(*   attrs synthesis attributes (audit extension, default <<>> = none) put as *)
(*         ONE Python set on every own signal of Top, every leaf signal and  *)
(*         every instance: <<word>> = translated attribute (a string, looked *)
(*         up in the platform's attr_translate), <<name, value>> = platform- *)
(*         dependent attribute emitted as is.  A set of >= 2 attributes is    *)
(*         iterated in PYTHONHASHSEED order; only the sorted() of            *)
(*         _generate_attribute makes the emitted (* a, b *) reproducible.    *)
(*   xlate TRUE = convert() is called with a platform-like attr_translate    *)
(*         dictionary (the default DummyAttrTranslate drops every translated *)
(*         attribute, so without it only <<name, value>> attributes appear)  *)
(*                                                                           *)
(* Corners are enumerated always; the product space is sampled by decoding   *)
(* raw entropy words supplied by the harness from VERIF_SEED.                *)
EXTENDS Integers, Sequences, FiniteSets, TLC, SequencesExt, Json, IOUtils

Attr  == << "x", "x_1", "x_1_1", "x_2", "y", "reg", "reg_1", "wire", "repeat", "union", "uwire",
            "mem", "mem_1", "mem_adr0", "input", "a", "a_b", "b" >>
Ovs   == << "x", "x_1", "x_2", "y", "reg", "reg_1", "repeat", "mem", "PRIM", "PRIM_1", "sys_clk" >>
Mems  == << "mem", "mem_1", "x", "reg", "m" >>
Insts == << "", "x", "x_1", "PRIM_1", "reg", "u" >>
Binds == << "attr", "loop", "anon" >>
Ios   == << "top", "leaf", "all" >>
AttrAlpha == << <<"keep">>, <<"no_retiming">>, <<"async_reg">>, <<"mr_ff", "true">>, <<"dont_touch", "true">>,
               <<"a", "1">>, <<"b", "2">> >>

SeqRange(q) == {q[i] : i \in DOMAIN q}
SeqsUpTo(S, lo, hi) == UNION {[1..k -> S] : k \in lo..hi}

IsShape(s) ==
  /\ s.leaf \in SeqsUpTo(SeqRange(Attr), 1, 3)
  /\ s.lov \in SeqRange(Ovs) \cup {""}
  /\ s.lrel \in BOOLEAN
  /\ s.depth \in 0..2 /\ s.fan \in 1..3
  /\ s.bind \in SeqRange(Binds) /\ s.ios \in SeqRange(Ios)
  /\ s.top \in SeqsUpTo(SeqRange(Attr), 0, 3)
  /\ s.tov \in SeqsUpTo(SeqRange(Ovs), 0, 3)
  /\ s.mems \in SeqsUpTo(SeqRange(Mems), 0, 2)
  /\ s.insts \in SeqsUpTo(SeqRange(Insts), 0, 2)
  /\ s.attrs \in SeqsUpTo(SeqRange(AttrAlpha), 0, 3)
  /\ s.xlate \in BOOLEAN

Shape(leaf, lov, lrel, depth, fan, bind, ios, top, tov, mems, insts) ==
  [leaf |-> leaf, lov |-> lov, lrel |-> lrel, depth |-> depth, fan |-> fan, bind |-> bind, ios |-> ios,
   top |-> top, tov |-> tov, mems |-> mems, insts |-> insts, attrs |-> <<>>, xlate |-> FALSE]
WithAttrs(s, a, x) == [s EXCEPT !.attrs = a, !.xlate = x]

(* hand-picked corners of the space: the situations the property statement names *)
Corners == <<
  \* equal names and numeric suffixes at top level, as ports
  Shape(<<"y">>, "", FALSE, 0, 1, "attr", "top", <<"x", "x_1">>, <<"x", "x">>, <<>>, <<>>),
  Shape(<<"y">>, "", FALSE, 0, 1, "attr", "top", <<"x_1">>, <<"x", "x", "x_1">>, <<>>, <<>>),
  \* reserved words as attribute names, ports and internal
  Shape(<<"reg", "wire", "repeat">>, "", FALSE, 0, 1, "attr", "leaf", <<"union", "uwire", "input">>, <<>>, <<>>, <<>>),
  Shape(<<"reg", "reg_1">>, "", FALSE, 0, 1, "attr", "top", <<"reg", "reg_1">>, <<>>, <<>>, <<>>),
  Shape(<<"repeat">>, "", FALSE, 1, 2, "loop", "top", <<"repeat">>, <<"repeat">>, <<>>, <<>>),
  \* deep and repeated hierarchies, children with equal names
  Shape(<<"x", "x_1">>, "", FALSE, 2, 2, "loop", "top", <<"x">>, <<>>, <<>>, <<>>),
  Shape(<<"x", "x_1">>, "", TRUE, 2, 3, "anon", "all", <<"x", "x_1", "x_2">>, <<>>, <<>>, <<>>),
  Shape(<<"a", "a_b", "b">>, "x", TRUE, 1, 3, "attr", "leaf", <<"a_b">>, <<"x_1">>, <<>>, <<>>),
  \* every leaf instance carries the same override
  Shape(<<"x">>, "x", FALSE, 1, 3, "loop", "top", <<"x_1", "x_2">>, <<>>, <<>>, <<>>),
  \* memories and instances competing with signals
  Shape(<<"mem">>, "", FALSE, 0, 2, "attr", "top", <<"mem", "mem_1", "mem_adr0">>, <<"mem">>, <<"mem", "mem">>, <<>>),
  Shape(<<"x">>, "PRIM", FALSE, 0, 1, "attr", "top", <<"x_1">>, <<"PRIM_1">>, <<"x">>, <<"", "">>),
  Shape(<<"x">>, "", FALSE, 0, 1, "attr", "top", <<"x", "x_1">>, <<"x">>, <<"x", "reg">>, <<"x", "reg">>),
  \* clock names
  Shape(<<"y">>, "sys_clk", FALSE, 0, 2, "attr", "leaf", <<"y">>, <<"sys_clk">>, <<>>, <<>>),
  \* several attributes on one signal / instance (ports, internal nets, instances), with and without translation
  WithAttrs(Shape(<<"x", "y">>, "", FALSE, 0, 2, "attr", "leaf", <<"x", "a">>, <<"x_1">>, <<>>, <<"u">>),
            << <<"keep">>, <<"no_retiming">>, <<"mr_ff", "true">> >>, TRUE),
  WithAttrs(Shape(<<"y">>, "", FALSE, 1, 2, "loop", "top", <<"reg", "b">>, <<>>, <<"mem">>, <<"", "x">>),
            << <<"a", "1">>, <<"b", "2">>, <<"dont_touch", "true">> >>, FALSE),
  WithAttrs(Shape(<<"a">>, "", TRUE, 0, 1, "attr", "all", <<"y">>, <<"y">>, <<>>, <<"PRIM_1">>),
            << <<"async_reg">>, <<"keep">>, <<"b", "2">> >>, TRUE),
  WithAttrs(Shape(<<"b">>, "", FALSE, 0, 1, "anon", "leaf", <<"x_2">>, <<>>, <<>>, <<>>),
            << <<"mr_ff", "true">>, <<"a", "1">> >>, FALSE)
>>

ASSUME CornersInSpace == \A i \in DOMAIN Corners : IsShape(Corners[i])

(* real LiteX blocks that go through the same path (the harness holds their source)   *)
Corpus == << "syncfifo", "asyncfifo", "converter", "wbsram", "timer", "wbdown" >>
ASSUME PrintT(<<"CORPUS", Corpus>>)

----------------------------------------------------------------------------
Rnd == JsonDeserialize(IOEnv.RND)
W(r, i)    == r[((i - 1) % Len(r)) + 1]
Pick(q, w) == q[1 + (w % Len(q))]
Words(r, o, lo, hi, alpha) == [i \in 1..(lo + (W(r, o) % (hi - lo + 1))) |-> Pick(alpha, W(r, o + i))]

SampleShape(r) ==
  Shape(Words(r, 1, 1, 3, Attr),
        IF W(r, 6) % 3 = 0 THEN Pick(Ovs, W(r, 7)) ELSE "",
        W(r, 8) % 3 = 0,
        W(r, 9) % 3, 1 + (W(r, 10) % 3), Pick(Binds, W(r, 11)), Pick(Ios, W(r, 12)),
        Words(r, 13, 0, 3, Attr), Words(r, 18, 0, 3, Ovs),
        Words(r, 23, 0, 2, Mems), Words(r, 27, 0, 2, Insts))

(* the attribute fields use entropy words of their own (31..36), so the other fields of a sampled *)
(* shape are what they were before the extension                                                   *)
SampleShapeA(r) ==
  IF W(r, 31) % 3 = 0 THEN WithAttrs(SampleShape(r), Words(r, 32, 2, 3, AttrAlpha), W(r, 36) % 2 = 0)
  ELSE SampleShape(r)

VARIABLES idx, shape
vars == <<idx, shape>>

Init == \/ /\ idx \in DOMAIN Corners
           /\ shape = Corners[idx]
           /\ PrintT(<<"SHAPE", "corner", idx, shape>>)
        \/ /\ idx \in {1000 + i : i \in 1..Len(Rnd)}
           /\ shape = SampleShapeA(Rnd[idx - 1000])
           /\ PrintT(<<"SHAPE", "sample", idx, shape>>)
Next == FALSE /\ UNCHANGED vars

InSpace == IsShape(shape)
=============================================================================
