----------------------------- MODULE NamerTrace -----------------------------
(* T-mode for C02: judges call histories recorded from the REAL              *)
(* litex.gen.fhdl.namer.build_signal_namespace(...).get_name(...).           *)
(*                                                                           *)
(* One trace = one run of one input case:                                    *)
(*   n       number of signals of the case                                   *)
(*   variant 0 = canonical run (creation order = case order, names requested *)
(*           in case order); > 0 = another request order / creation (duid)   *)
(*           order / collection order chosen by NamerInputs                  *)
(*   bases   what the namespace started from for each signal (override, else *)
(*           its name-table entry) -- read from the namespace's public state *)
(*   ev      the history: <<signal, returned name>> per get_name call        *)
(*   err     the real code raised instead of answering                       *)
(* Every clause is an INVARIANT; clauses are evaluated when the history has  *)
(* been consumed.  `wit` carries the witnesses TLC prints with a violation.  *)
(* L2Agrees compares every returned name with the L2 model (Namer!L2Get      *)
(* seeded with the implementation's own reserved set): a difference is       *)
(* MODEL-DRIFT, never a verdict.                                             *)
EXTENDS Namer, Json, IOUtils

T            == JsonDeserialize(IOEnv.TRACES)
ImplSeq      == JsonDeserialize(IOEnv.IMPL)
ImplReserved == {ImplSeq[i] : i \in DOMAIN ImplSeq}

VARIABLES tid, l, mon, counts, sfx, drift, envbad, wit
vars == <<tid, l, mon, counts, sfx, drift, envbad, wit>>

C == T[tid]

WellFormed(c) ==
  /\ c.n >= 1 /\ Len(c.bases) = c.n
  /\ \A i \in 1..Len(c.ev) : c.ev[i][1] \in 1..c.n
  /\ (~c.err) => {c.ev[i][1] : i \in 1..Len(c.ev)} = 1..c.n      \* every signal was asked at least once

Init == /\ tid \in 1..Len(T) /\ l = 1
        /\ mon = MonInit(C.n)
        /\ counts = <<>>
        /\ sfx = [s \in 1..C.n |-> -1]
        /\ drift = FALSE
        /\ envbad = ~WellFormed(C)
        /\ wit = Witness(MonInit(C.n), C.bases)

Next ==
  /\ ~envbad
  /\ l <= Len(C.ev)
  /\ LET s  == C.ev[l][1]
         nm == C.ev[l][2]
         g  == L2Get(counts, sfx, ImplReserved, s, C.bases[s])
     IN /\ mon' = MonStep(mon, s, nm)
        /\ counts' = g.counts
        /\ sfx' = g.sfx
        /\ drift' = (drift \/ g.name # nm)
        /\ wit' = Witness(mon', C.bases)
  /\ l' = l + 1
  /\ UNCHANGED <<tid, envbad>>

Done == l > Len(C.ev)

EnvLegal == ~envbad                                   \* harness obligation
Total       == ~C.err                                 \* every request is answered
Injective   == (Done /\ C.variant = 0) => wit.collide = {}
OrderIndependentUniqueness == (Done /\ C.variant # 0) => wit.collide = {}
Stable      == Done => wit.unstable = {}
LegalSyntax == Done => wit.syntax = {}
NotReserved == Done => wit.reserved = {}
L2Agrees    == ~drift                                 \* MODEL-DRIFT detector, informational
=============================================================================
