----------------------------- MODULE NamerTrace -----------------------------
(* T-mode for C02: judges call histories recorded from the REAL              *)
(* litex.gen.fhdl.namer.build_signal_namespace(...).get_name(...).           *)
(*                                                                           *)
(* One trace = one run of one input case:                                    *)
(*   n       number of signals of the case                                   *)
(*   variant 0 = canonical run (creation order = case order, names requested *)
(*           in case order); > 0 = another request order / creation (duid)   *)
(*           order / collection order chosen by NamerInputs                  *)
(*   bases   what the namespace started from for each signal (override, else *)
(*           its name-table entry) -- read from the namespace's public state *)
(*   ev      the history: <<signal, returned name>> per get_name call        *)
(*   err     the real code raised instead of answering (such a run is not    *)
(*           judged: no name table, no netlist)                               *)
(* Every clause is an INVARIANT over the monitor state reached after the      *)
(* whole history.  `wit` carries the witnesses TLC prints with a violation.  *)
(* L2Agrees / L2AgreesFixed compare every returned name with the two L2      *)
(* models (Namer!L2Get = as implemented, Namer!L2GetFixed = repaired; both   *)
(* seeded with the implementation's own reserved set): the harness learns    *)
(* which design the code follows; following neither is MODEL-DRIFT, never a  *)
(* verdict.                                                                  *)
EXTENDS Namer, Json, IOUtils

T            == JsonDeserialize(IOEnv.TRACES)
ImplSeq      == JsonDeserialize(IOEnv.IMPL)
ImplReserved == {ImplSeq[i] : i \in DOMAIN ImplSeq}

VARIABLES tid, fin, wit, envbad
vars == <<tid, fin, wit, envbad>>

C == T[tid]

WellFormed(c) ==
  /\ c.n >= 1 /\ Len(c.bases) = c.n
  /\ \A i \in 1..Len(c.ev) : c.ev[i][1] \in 1..c.n
  /\ (~c.err) => {c.ev[i][1] : i \in 1..Len(c.ev)} = 1..c.n      \* every signal was asked at least once

(* one observed call: the L1 monitor takes the name the real code returned; both L2     *)
(* designs (as implemented / repaired, each with the implementation's own reserved set)  *)
(* are advanced alongside and compared                                                   *)
Start(c) == [mon |-> MonInit(c.n),
             counts |-> <<>>, sfx |-> [s \in 1..c.n |-> -1], drift |-> FALSE,
             countsf |-> <<>>, sfxf |-> [s \in 1..c.n |-> -1], usedf |-> {}, driftf |-> FALSE]
Call(c, st, e) ==
  LET s  == e[1]
      nm == e[2]
      g  == L2Get(st.counts, st.sfx, ImplReserved, s, c.bases[s])
      h  == L2GetFixed(st.countsf, st.sfxf, ImplReserved, st.usedf, c.n + 2, s, c.bases[s])
  IN [mon |-> MonStep(st.mon, s, nm),
      counts |-> g.counts, sfx |-> g.sfx, drift |-> (st.drift \/ g.name # nm),
      countsf |-> h.counts, sfxf |-> h.sfx, usedf |-> st.usedf \cup {h.name}, driftf |-> (st.driftf \/ h.name # nm)]

RECURSIVE Consume(_, _, _)
Consume(c, i, st) == IF i > Len(c.ev) THEN st ELSE Consume(c, i + 1, Call(c, st, c.ev[i]))

(* every recorded history is one initial state holding the monitor after the whole history *)
(* (TLC prints a violated initial state directly; a history judged step by step would make *)
(* TLC reconstruct one error trace per rejected history, which is quadratic in the batch)  *)
Init == /\ tid \in 1..Len(T)
        /\ envbad = ~WellFormed(C)
        /\ fin = IF envbad \/ C.err THEN Start(C) ELSE Consume(C, 1, Start(C))   \* a run that raised named nothing
        /\ wit = Witness(fin.mon, C.bases)
Next == tid < 0 /\ UNCHANGED vars

EnvLegal == ~envbad                                   \* harness obligation
Injective   == C.variant = 0 => wit.collide = {}
OrderIndependentUniqueness == C.variant # 0 => wit.collide = {}
Stable      == wit.unstable = {}
LegalSyntax == wit.syntax = {}
NotReserved == wit.reserved = {}
L2Agrees      == ~fin.drift                           \* MODEL-DRIFT detectors, informational:
L2AgreesFixed == ~fin.driftf                          \* which of the two L2 designs the code follows
=============================================================================
