------------------------------- MODULE Namer -------------------------------
(* Property C02, name-request level.                                         *)
(*                                                                           *)
(* L1 (contract, gives verdicts): a monitor over the observable history of   *)
(* a namespace  "get_name(signal) returned name"  and the clauses            *)
(*   Injective   distinct signals never share a name                         *)
(*   Stable      asking again returns the same name                          *)
(*   LegalSyntax every name is a simple Verilog identifier                   *)
(*   NotReserved no name is an IEEE 1800-2017 keyword                        *)
(* The monitor never looks at counters or suffixes.                          *)
(*                                                                           *)
(* L2 (implementation shaped, gives no verdict): SignalNamespace.get_name of *)
(* litex/gen/fhdl/namer.py as a function on its two dictionaries             *)
(*   counts : base name -> next suffix  (pre-seeded with 1 for every word of *)
(*            the implementation's reserved set `resv`)                      *)
(*   sfx    : signal -> suffix it was given (-1 = not yet asked)             *)
(* used by NamerM (exhaustive exploration of all request orders) and by      *)
(* NamerTrace (conformance of the real code with this model = MODEL-DRIFT    *)
(* detection).  L2Fixed is the proposed repair (never hand out a name that   *)
(* is already taken or reserved).                                            *)
EXTENDS Integers, Sequences, FiniteSets, TLC, VerilogLex

----------------------------------------------------------------------------
(* L1 monitor *)
MonInit(n) == [asked |-> {}, tbl |-> [s \in 1..n |-> ""], unstable |-> {}]

MonStep(m, s, nm) ==
  [asked    |-> m.asked \cup {s},
   tbl      |-> IF s \in m.asked THEN m.tbl ELSE [m.tbl EXCEPT ![s] = nm],
   unstable |-> IF s \in m.asked /\ m.tbl[s] # nm THEN m.unstable \cup {s} ELSE m.unstable]

Collide(m)     == {p \in m.asked \X m.asked : p[1] < p[2] /\ m.tbl[p[1]] = m.tbl[p[2]]}
BadSyntax(m)   == {s \in m.asked : ~IsIdent(m.tbl[s])}
BadReserved(m) == {s \in m.asked : m.tbl[s] \in Reserved}

(* witness record, printed by TLC with the violating state; `bases` (the name the     *)
(* namespace started from for each signal: override or name-table entry) only serves  *)
(* to classify a collision, never to decide whether there is one                      *)
Witness(m, bases) ==
  [collide  |-> {<<p[1], p[2], m.tbl[p[1]]>> : p \in Collide(m)},
   kinds    |-> {IF bases[p[1]] # bases[p[2]] THEN "suffix_lookalike" ELSE "same_base" : p \in Collide(m)},
   unstable |-> m.unstable,
   syntax   |-> {m.tbl[s] : s \in BadSyntax(m)},
   reserved |-> {m.tbl[s] : s \in BadReserved(m)}]

----------------------------------------------------------------------------
(* L2 model of SignalNamespace.get_name *)
Count(counts, resv, b) == IF b \in DOMAIN counts THEN counts[b] ELSE IF b \in resv THEN 1 ELSE 0
Compose(b, n) == IF n = 0 THEN b ELSE b \o "_" \o ToString(n)

L2Get(counts, sfx, resv, s, b) ==
  LET new == sfx[s] < 0
      n   == IF new THEN Count(counts, resv, b) ELSE sfx[s]
  IN [name   |-> Compose(b, n),
      counts |-> IF new THEN (b :> n + 1) @@ counts ELSE counts,
      sfx    |-> [sfx EXCEPT ![s] = n]]

(* proposed repair: skip every suffix whose composed name was already handed out or   *)
(* is reserved; `used` = set of names handed out so far, `bound` > number of signals  *)
L2GetFixed(counts, sfx, resv, used, bound, s, b) ==
  LET new == sfx[s] < 0
      c   == Count(counts, {}, b)
      ok(k) == Compose(b, k) \notin used /\ Compose(b, k) \notin resv
      n   == IF new THEN CHOOSE k \in c..(c + bound) : ok(k) /\ \A j \in c..(k - 1) : ~ok(j)
             ELSE sfx[s]
  IN [name   |-> Compose(b, n),
      counts |-> IF new THEN (b :> n + 1) @@ counts ELSE counts,
      sfx    |-> [sfx EXCEPT ![s] = n]]
=============================================================================
