------------------------------- MODULE NamerM -------------------------------
(* M-mode for C02: the L2 model of SignalNamespace under every environment:  *)
(* NSig signals whose base names (name_override or name-table entry) are any *)
(* words of an adversarial alphabet, names requested in any order with       *)
(* repetition.  TLC explores it exhaustively and reports whether the DESIGN  *)
(* admits a collision / an unstable or illegal name.  A counterexample is no *)
(* verdict: the harness replays it on the real build_signal_namespace /      *)
(* get_name and NamerTrace judges the recorded history.                      *)
(*                                                                           *)
(* ImplReserved is read from the real code (the set it pre-seeds `counts`    *)
(* with).  Fixed = TRUE explores the repaired get_name (L2GetFixed); Resv =  *)
(* "std" seeds it with the standard's keyword list instead of the code's.    *)
(* The harness explores the design the real code was observed to follow      *)
(* (NamerTrace!L2Agrees / L2AgreesFixed) and, as evidence for the proposed   *)
(* repair, Fixed = TRUE with Resv = "std".                                   *)
EXTENDS Namer, Json, IOUtils

CONSTANTS NSig, Fixed, Resv            \* Resv: "impl" = the implementation's keyword set, "std" = the standard's

(* adversarial alphabet: a plain name, names that look like generated suffixed names,  *)
(* keywords, names that look like suffixed keywords, and the three keywords whose       *)
(* literals are mistyped in the implementation's list                                  *)
Alphabet == << "x", "x_1", "x_1_1", "x_2", "reg", "reg_1", "wire", "repeat", "union", "uwire", "y" >>

ImplSeq      == JsonDeserialize(IOEnv.IMPL)
ImplReserved == {ImplSeq[i] : i \in DOMAIN ImplSeq}

VARIABLES base, counts, sfx, mon, last
vars == <<base, counts, sfx, mon, last>>

Sigs == 1..NSig
AIdx(w) == CHOOSE i \in DOMAIN Alphabet : Alphabet[i] = w

(* signals are interchangeable for the namespace (only the request order matters), so *)
(* base assignments are taken up to permutation: non-decreasing alphabet index        *)
Init == /\ base \in {f \in [Sigs -> {Alphabet[i] : i \in DOMAIN Alphabet}] :
                        \A s \in 1..(NSig - 1) : AIdx(f[s]) <= AIdx(f[s + 1])}
        /\ counts = <<>>
        /\ sfx = [s \in Sigs |-> -1]
        /\ mon = MonInit(NSig)
        /\ last = <<0, "">>

Used == {mon.tbl[s] : s \in mon.asked}
Seed == IF Resv = "std" THEN Reserved ELSE ImplReserved

GetName(s) ==
  LET g == IF Fixed THEN L2GetFixed(counts, sfx, Seed, Used, NSig + 2, s, base[s])
                    ELSE L2Get(counts, sfx, Seed, s, base[s])
  IN /\ counts' = g.counts
     /\ sfx' = g.sfx
     /\ mon' = MonStep(mon, s, g.name)
     /\ last' = <<s, g.name>>
     /\ UNCHANGED base

Next == \E s \in Sigs : GetName(s)

Injective   == Collide(mon) = {}
Stable      == mon.unstable = {}
LegalSyntax == BadSyntax(mon) = {}
NotReserved == BadReserved(mon) = {}
=============================================================================
