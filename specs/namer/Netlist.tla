------------------------------ MODULE Netlist ------------------------------
(* T-mode for C02, end to end: judges what the REAL                          *)
(* litex.gen.fhdl.verilog.convert() produced for one generated design, run   *)
(* several times in fresh interpreters (group = tracer shim on/off; within a *)
(* group the runs differ in PYTHONHASHSEED or are plain repetitions).        *)
(*                                                                           *)
(* One record per design:  runs : sequence of                                *)
(*   grp    group number (runs of one group must give the same text)         *)
(*   off    audit extension: how many unrelated Signals the interpreter had   *)
(*          created before building each design (0 in the classic runs): all  *)
(*          DUIDs of the design are shifted, nothing else changes.  The       *)
(*          statement's "two runs over the same design" does not depend on    *)
(*          what else the process created before, so runs of one group that   *)
(*          differ only in `off` must give the same text, too                 *)
(*          (OffsetReproducible; judged apart from Reproducible so that the   *)
(*          classic clause keeps its meaning)                                 *)
(*   ok     convert() returned (a run that raised is not judged: nothing was *)
(*          generated)                                                       *)
(*   decls  <<kind, identifier>> for every declaration found in the emitted  *)
(*          text (kind: port / net / memory / instance), in text order       *)
(*   used   identifiers occurring in the statements of the text (assigns,    *)
(*          always blocks, memory and instance bodies)                       *)
(*   table  <<name, base, kind>> for every object the namespace named        *)
(*          (ConvOutput.ns: signals, memories, instances; base = override or  *)
(*          name-table entry) -- used for EveryObjectDeclared and to classify *)
(*          a duplicate                                                      *)
(*   lines  the emitted text as lines, without the two timestamp lines and    *)
(*          the banner line holding the git revision of the LiteX checkout   *)
(*   ndate  how many such lines the harness removed (must be 3)              *)
EXTENDS Namer, Json, IOUtils

T == JsonDeserialize(IOEnv.TRACES)

VARIABLES tid, wit, envbad
vars == <<tid, wit, envbad>>

M == T[tid]
Runs(m)   == {i \in DOMAIN m.runs : m.runs[i].ok}
DeclNames(r)  == {r.decls[i][2] : i \in DOMAIN r.decls}
TableNames(r) == {r.table[i][1] : i \in DOMAIN r.table}

DupDecl(r)  == {r.decls[i][2] : i \in {i \in DOMAIN r.decls : \E j \in DOMAIN r.decls : j # i /\ r.decls[j][2] = r.decls[i][2]}}
TCollide(r) == {p \in (DOMAIN r.table) \X (DOMAIN r.table) : p[1] < p[2] /\ r.table[p[1]][1] = r.table[p[2]][1]}
Kind(r, p)  == IF r.table[p[1]][2] # r.table[p[2]][2] THEN "suffix_lookalike" ELSE "same_base"
(* a duplicate declaration that does not come from two named objects sharing a name *)
DupKinds(r) == {Kind(r, p) : p \in TCollide(r)}
                 \cup (IF \E d \in DupDecl(r) : \A p \in TCollide(r) : r.table[p[1]][1] # d THEN {"declared_twice"} ELSE {})

(* runs of one group that differ only in the DUID offset but not in the text they should give.  *)
(* Classification of a difference (only names the situation, never decides whether there is one): *)
(* "suffix_assignment_order" = two objects share a base name (which of them got which _<n> suffix  *)
(* can have changed) or the namespace handed out different names (x, x, x_1 or reg, reg_1 asked in *)
(* another order; a memory named x_2 instead of x_1 also renames its x_2_adr0 register);           *)
(* "other" = the namespace answered the same (same rows, no equal bases), yet the text differs     *)
UnreproOff(m) == {p \in Runs(m) \X Runs(m) : p[1] < p[2] /\ m.runs[p[1]].grp = m.runs[p[2]].grp
                                              /\ m.runs[p[1]].off # m.runs[p[2]].off
                                              /\ m.runs[p[1]].lines # m.runs[p[2]].lines}
TableSet(r)   == {r.table[i] : i \in DOMAIN r.table}
SharedBase(r) == \E i, j \in DOMAIN r.table : i < j /\ r.table[i][2] = r.table[j][2] /\ r.table[i][2] # ""
OffKind(m, p) == LET a == m.runs[p[1]]
                     b == m.runs[p[2]]
                 IN IF SharedBase(a) \/ TableSet(a) # TableSet(b)
                    THEN "suffix_assignment_order" ELSE "other"

Judge(m) ==
  [dup        |-> UNION {DupDecl(m.runs[i]) : i \in Runs(m)},
   tcollide   |-> UNION {{m.runs[i].table[p[1]][1] : p \in TCollide(m.runs[i])} : i \in Runs(m)},
   kinds      |-> UNION {DupKinds(m.runs[i]) : i \in Runs(m)},
   syntax     |-> UNION {{n \in DeclNames(m.runs[i]) : ~IsIdent(n)} : i \in Runs(m)},
   reserved   |-> UNION {DeclNames(m.runs[i]) \cap Reserved : i \in Runs(m)},
   undeclared |-> UNION {TableNames(m.runs[i]) \ DeclNames(m.runs[i]) : i \in Runs(m)},
   undeclareduse |-> UNION {{m.runs[i].used[j] : j \in DOMAIN m.runs[i].used} \ DeclNames(m.runs[i]) : i \in Runs(m)},
   unrepro    |-> {p \in Runs(m) \X Runs(m) : p[1] < p[2] /\ m.runs[p[1]].grp = m.runs[p[2]].grp
                                              /\ m.runs[p[1]].off = m.runs[p[2]].off
                                              /\ m.runs[p[1]].lines # m.runs[p[2]].lines},
   unreprooff |-> UnreproOff(m),
   offkinds   |-> {OffKind(m, p) : p \in UnreproOff(m)}]

(* harness obligations: exactly the three header lines were removed, declarations were  *)
(* found, every design has >= 2 runs per group                                          *)
Sane(m) == /\ \A i \in Runs(m) : /\ m.runs[i].ndate = 3
                                 /\ Len(m.runs[i].decls) >= 1
           /\ \A i \in DOMAIN m.runs : \E j \in DOMAIN m.runs : j # i /\ m.runs[j].grp = m.runs[i].grp

Init == /\ tid \in 1..Len(T)
        /\ wit = Judge(M)
        /\ envbad = ~Sane(M)
Next == tid < 0 /\ UNCHANGED vars

EnvLegal            == ~envbad
DeclUnique          == wit.dup = {}           \* no identifier is declared twice in one text
TableInjective      == wit.tcollide = {}      \* ns.get_name is injective over all named objects
DeclLegalSyntax     == wit.syntax = {}
DeclNotReserved     == wit.reserved = {}
EveryObjectDeclared == wit.undeclared = {}    \* every named signal / memory / instance is declared
UsedIsDeclared      == wit.undeclareduse = {} \* the name a statement uses is the name that was declared
Reproducible        == wit.unrepro = {}       \* same design, fresh interpreter => same text
OffsetReproducible  == wit.unreprooff = {}    \* ... also when the process had created other Signals before
=============================================================================
