------------------------------ MODULE WbIcTrace ------------------------------
EXTENDS WbIcContract, Json, IOUtils
T == JsonDeserialize(IOEnv.TRACES)
VARIABLES tid, l, envbad, stall
vars == <<tid, l, envbad, stall, open, incyc, served, waitc, owner, age, ageu, tofired, seen, obs>>
C == T[tid].cfg
Init == /\ tid \in 1..Len(T) /\ l = 1 /\ envbad = FALSE /\ stall = [i \in 1..MAXN |-> 0] /\ CInit
Next ==
  /\ l <= Len(T[tid].ev)
  /\ LET iv == T[tid].ev[l][1]
         o  == T[tid].ev[l][2]
     IN /\ envbad' = (envbad \/ iv \notin Inputs(C))
        /\ CStep(C, iv, o)
        \* bounded form of Served/Recovers for replayed lassos (TLC has established the premises on the lasso; the
        \* replay, prefix + loop unrolled, confirms that the real netlist leaves the same master waiting throughout):
        \* per master, consecutive cycles in which its request stays unterminated
        /\ stall' = [i \in 1..MAXN |-> IF ~obs'.notwaiting[i] THEN stall[i] + 1 ELSE 0]
  /\ l' = l + 1 /\ tid' = tid
EnvLegal == ~envbad
BoundedService == \A i \in 1..MAXN : stall[i] < C.stallbound
=============================================================================
