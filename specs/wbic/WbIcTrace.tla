------------------------------ MODULE WbIcTrace ------------------------------
EXTENDS WbIcContract, Json, IOUtils
T == JsonDeserialize(IOEnv.TRACES)
VARIABLES tid, l, envbad, stall
vars == <<tid, l, envbad, stall, open, incyc, served, waitc, owner, age, ageu, tofired, seen, obs>>
C == T[tid].cfg
Init == /\ tid \in 1..Len(T) /\ l = 1 /\ envbad = FALSE /\ stall = 0 /\ CInit
Next ==
  /\ l <= Len(T[tid].ev)
  /\ LET iv == T[tid].ev[l][1]
         o  == T[tid].ev[l][2]
     IN /\ envbad' = (envbad \/ iv \notin Inputs(C))
        /\ CStep(C, iv, o)
        \* bounded form of Served/Recovers for replayed lassos: consecutive cycles in which some
        \* master keeps waiting although every slave cooperates
        /\ stall' = IF (\E i \in 1..MAXN : ~obs'.notwaiting[i]) /\ (\A j \in 1..MAXN : obs'.slaveok[j] \/ C.faulty = 1)
                    THEN stall + 1 ELSE 0
  /\ l' = l + 1 /\ tid' = tid
EnvLegal == ~envbad
BoundedService == stall < C.stallbound
=============================================================================
