---------------------------- MODULE WbIcModelConf ----------------------------
(* Conformance of the L2 model (WbIcModel) to the real netlists of          *)
(* wishbone.InterconnectShared / Crossbar / InterconnectPointToPoint: every *)
(* recorded step (registers read by name from the netlist, inputs, outputs, *)
(* registers after the clock edge) must be exactly what MStep computes.     *)
(* Cases: (a) ALL edges of the complete G-mode graph of each DUT, (b) every *)
(* cycle of long random runs of larger instances (4x4, time-outs up to 8).  *)
(*   T.duts[i] = [m |-> model cfg, reset |-> r, cases |-> << <<r, iv, o, r2>>, ... >>] *)
(* A failure is MODEL-DRIFT (a note), never a verdict.                      *)
EXTENDS Integers, Sequences, TLC, Json, IOUtils

M == INSTANCE WbIcModel
T == JsonDeserialize(IOEnv.CASES)

VARIABLES i, j
vars == <<i, j>>
Init == i \in 1..Len(T.duts) /\ j \in 1..Len(T.duts[i].cases)
Next == UNCHANGED vars

K == T.duts[i].cases[j]
E == M!MStep(T.duts[i].m, K[1], K[2])
OutputsAgree == E.o = K[3]
NextStateAgrees == E.r = K[4]
ResetAgrees == T.duts[i].reset = M!MInit(T.duts[i].m)
=============================================================================
