----------------------------- MODULE WbIcModelM -----------------------------
(* M-mode:  L2 model (WbIcModel) x Env x WbIcContract monitor, no code       *)
(* involved.  Same product as WbIcGraph with the lookup in the graph of the  *)
(* real netlist replaced by the model's step function, so the environment    *)
(* and the clauses (C06 and C11, safety and liveness) are literally those    *)
(* that judge the real code; the parameters go beyond what the Python        *)
(* stepper affords (4 masters x 4 slaves, time-outs up to 8).                *)
(* MC = list of [c |-> L1 configuration, m |-> model configuration].         *)
(* A counterexample found here is no verdict: the harness replays it on the  *)
(* real netlist and lets WbIcTrace judge that run.                           *)
EXTENDS WbIcContract, Json, IOUtils

M == INSTANCE WbIcModel
MC == JsonDeserialize(IOEnv.MCFG)

VARIABLES d,   \* which configuration
          r,   \* the model's registers
          ph   \* see WbIcGraph
vars == <<d, r, open, incyc, served, waitc, owner, age, ageu, tofired, seen, obs, ph>>

C == MC[d].c
Mc == MC[d].m

Init == /\ d \in 1..Len(MC) /\ r = M!MInit(MC[d].m) /\ ph = 0 /\ CInit

Trans(iv, e) ==                      \* e = the model's step under the inputs iv
  /\ r' = e.r /\ d' = d
  /\ CStep(C, iv, e.o)
  /\ ph' = IF e.r = r /\ cvars' = cvars THEN 1 - ph ELSE 0
Step(iv) == Trans(iv, M!MStep(Mc, r, iv))

(* The environment is Inputs(C) of the contract.  It is enumerated without the policy values of slaves that do   *)
(* not see cyc & stb in this cycle: such a value changes neither the model's step (a test slave's policy is only  *)
(* read when it is strobed) nor the monitor's (Pol is only read under ready(j)), so the reachable states and      *)
(* transitions are exactly those of  \E iv \in Inputs(C) : Step(iv)  at a fraction of the evaluations.  Which     *)
(* slaves are strobed does not depend on the policies (forward path); Step asserts it.                            *)
ZeroPols == [j \in 1..C.m |-> 0]
Strobed(o) == [j \in 1..C.m |-> SCyc(C, o, j) = 1 /\ SStb(C, o, j) = 1]
RECURSIVE PolProd(_, _)
PolProd(st, j) == IF j > C.m THEN { <<>> }
                  ELSE { <<p>> \o rest : p \in (IF st[j] THEN SlaveMoves(C) ELSE {0}), rest \in PolProd(st, j + 1) }
Next == \E mv \in MProd(C, 1) :
          LET st == Strobed(M!MStep(Mc, r, mv \o ZeroPols).o) IN
            \E pv \in PolProd(st, 1) :
              LET e == M!MStep(Mc, r, mv \o pv) IN
                /\ Trans(mv \o pv, e)
                /\ Assert(Strobed(e.o) = st, "strobes depend on the slaves' policies")
(* No fairness conjunct: WbIcGraph has WF_vars(Next) to exclude behaviours that end in stuttering, and TLC pays for *)
(* it by searching, for every edge of the state graph, an input that produces it.  Here the liveness clauses carry  *)
(* the premise Moves instead (an action check that costs nothing); Next is always enabled, so it says the same.     *)
Spec == Init /\ [][Next]_vars
Alias == [d |-> d, r |-> r, obs |-> obs, open |-> open, waitc |-> waitc, age |-> age,
          iv |-> CHOOSE iv \in Inputs(C) : Step(iv)]

(* liveness, as in WbIcGraph, with the premise Moves = "the behaviour does not end in stuttering" in the place of   *)
(* WbIcGraph's WF_vars(Next)                                                                                        *)
Obliged(k) == open[k] # <<>> /\ (open[k][1] <= C.m \/ C.timeout > 0)
NoHog == \A k \in 1..MAXN : []<>(incyc[k] = 0 \/ (served[k] = 0 /\ Obliged(k)))
FairSlaves == \A j \in 1..MAXN : []<>(obs.slaveok[j])
Moves == []<><<TRUE>>_vars
Served == (Moves /\ NoHog /\ FairSlaves) => \A i \in 1..MAXN : []<>(obs.notwaiting[i])
Recovers == (Moves /\ NoHog) => \A i \in 1..MAXN : []<>(obs.notwaiting[i])
=============================================================================
