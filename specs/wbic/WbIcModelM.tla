----------------------------- MODULE WbIcModelM -----------------------------
(* M-mode:  L2 model (WbIcModel) x Env x WbIcContract monitor, no code       *)
(* involved.  Same product as WbIcGraph with the lookup in the graph of the  *)
(* real netlist replaced by the model's step function, so the environment    *)
(* and the clauses (C06 and C11, safety and liveness) are literally those    *)
(* that judge the real code; the parameters go beyond what the Python        *)
(* stepper affords (4 masters x 4 slaves, time-outs up to 8).                *)
(* MC = list of [c |-> L1 configuration, m |-> model configuration].         *)
(* A counterexample found here is no verdict: the harness replays it on the  *)
(* real netlist and lets WbIcTrace judge that run.                           *)
EXTENDS WbIcContract, Json, IOUtils

M == INSTANCE WbIcModel
MC == JsonDeserialize(IOEnv.MCFG)

VARIABLES d,   \* which configuration
          r,   \* the model's registers
          ph   \* see WbIcGraph
vars == <<d, r, open, incyc, served, waitc, owner, age, ageu, tofired, seen, obs, ph>>

C == MC[d].c
Mc == MC[d].m

Init == /\ d \in 1..Len(MC) /\ r = M!MInit(MC[d].m) /\ ph = 0 /\ CInit

Step(iv) ==
  LET e == M!MStep(Mc, r, iv) IN
    /\ r' = e.r /\ d' = d
    /\ CStep(C, iv, e.o)
    /\ ph' = IF e.r = r /\ cvars' = cvars THEN 1 - ph ELSE 0

Next == \E iv \in Inputs(C) : Step(iv)
Spec == Init /\ [][Next]_vars /\ WF_vars(Next)
Alias == [d |-> d, r |-> r, obs |-> obs, open |-> open, waitc |-> waitc, age |-> age,
          iv |-> CHOOSE iv \in Inputs(C) : Step(iv)]

(* liveness, as in WbIcGraph *)
Fair == /\ \A i \in 1..MAXN : []<>(obs.idle[i])
        /\ \A j \in 1..MAXN : []<>(obs.slaveok[j])
Served == Fair => \A i \in 1..MAXN : []<>(obs.notwaiting[i])
Recovers == (\A i \in 1..MAXN : []<>(obs.idle[i])) => \A i \in 1..MAXN : []<>(obs.notwaiting[i])
=============================================================================
