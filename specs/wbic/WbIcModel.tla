------------------------------ MODULE WbIcModel ------------------------------
(***************************************************************************)
(* L2: implementation-shaped model of the Wishbone interconnect of         *)
(* litex/soc/interconnect/wishbone.py, register for register:              *)
(*                                                                         *)
(*   RoundRobin(n, SP_WITHDRAW)   migen/genlib/roundrobin.py   reg grant   *)
(*   Arbiter(masters, target)     N masters -> 1 bus           (rr)        *)
(*   Decoder(master, slaves, register)  1 bus -> M slaves      reg         *)
(*                                slave_sel_r (only if register)           *)
(*   WaitTimer(t)                 litex/gen/genlib/misc.py     reg count   *)
(*   Timeout(master, cycles)      forced ack / all-ones / error pulse      *)
(*   InterconnectShared = Arbiter + Decoder (+ Timeout) on one shared bus  *)
(*   Crossbar           = one Decoder per master, one Arbiter per slave    *)
(*                        (timeout_cycles is accepted and ignored)         *)
(*   InterconnectPointToPoint = master.connect(slave)                      *)
(*                                                                         *)
(* together with the test bench of harness/families/wbic.py (tagged        *)
(* masters, policy-driven slaves that answer combinationally), because     *)
(* that is the netlist the G-mode graphs are about.  One clock cycle is    *)
(*                                                                         *)
(*      MStep(m, r, iv) = [o |-> outputs of this cycle, r |-> next regs]   *)
(*                                                                         *)
(* m  = model configuration: kind ("shared" | "crossbar" | "p2p"), n       *)
(*      masters, ns slaves, register (0/1), timeout (0 = none, else the    *)
(*      cycles), minlat (test slaves answer one cycle late), dw (data      *)
(*      width), adrs (word address the test master drives for target       *)
(*      0..ns+1, 1-based sequence), regions (per slave [k, lo, size] in    *)
(*      words: k = "mask" SoCRegion.decoder, "range" lo <= a < lo + size,  *)
(*      "true" whole address space)                                        *)
(* r  = [grant, selr, count, seen]: sequences of register values,          *)
(*        grant: RoundRobin.grant      <<g>> shared, one per slave in a    *)
(*               crossbar, <<>> if n = 1 (grant is then combinational 0)   *)
(*        selr:  Decoder.slave_sel_r   <<s>> shared, one per master in a   *)
(*               crossbar, <<>> if not registered (bit j-1 = slave j)      *)
(*        count: WaitTimer.count       <<c>> if a time-out exists          *)
(*        seen:  test slaves' latency register (minlat = 1), one per slave *)
(* iv, o as in WbIcContract.                                               *)
(*                                                                         *)
(* Slaves answer combinationally, so a module's cycle is split into its    *)
(* forward path (master -> slave signals), its return path (slave ->       *)
(* master signals) and the next value of its registers.                    *)
(* A master-to-slave bundle is [cyc, stb, we, adr, dat_w]; sel, cti, bte   *)
(* are muxed/forwarded exactly like we (constants in the test bench, not   *)
(* observed).  A slave-to-master bundle is [ack, err, dat_r]; a data word  *)
(* on the return path is the SET OF ITS ONE-BIT POSITIONS (2^32-1 does not *)
(* fit TLC's integers): OR is union, AND with Replicate(bit) is IF.        *)
(*                                                                         *)
(* No verdict comes from this module (DESIGN.md 9): WbIcModelConf checks   *)
(* it against every edge of the real netlists' graphs, WbIcModelM checks   *)
(* it against the clauses of WbIcContract at sizes G-mode cannot afford.   *)
(***************************************************************************)
EXTENDS Integers, Sequences, FiniteSets, Bitwise

B(x) == IF x THEN 1 ELSE 0
P2(k) == 2^k
Bit(x, k) == (x \div P2(k)) % 2
MinOf(S) == CHOOSE x \in S : \A y \in S : x <= y
Clamp(i, top) == IF i > top THEN top ELSE i                \* migen Array: an index beyond the end selects the last element
BitsFor(x) == CHOOSE k \in 1..31 : P2(k) > x /\ (k = 1 \/ P2(k - 1) <= x)    \* migen bits_for(x), x >= 0

(* <<F(1), ..., F(n)>>, built eagerly.  (TLC evaluates a function constructor [i \in 1..n |-> F(i)] lazily and   *)
(* again at every application; nested, that multiplies.  Every vector of this module is therefore a tuple.)      *)
(* (SANY has no recursive operators with operator arguments: vectors have at most 6 elements.)                    *)
Tab(n, F(_)) ==
  CASE n = 0 -> <<>>
    [] n = 1 -> <<F(1)>>
    [] n = 2 -> <<F(1), F(2)>>
    [] n = 3 -> <<F(1), F(2), F(3)>>
    [] n = 4 -> <<F(1), F(2), F(3), F(4)>>
    [] n = 5 -> <<F(1), F(2), F(3), F(4), F(5)>>
    [] n = 6 -> <<F(1), F(2), F(3), F(4), F(5), F(6)>>

(* data word on the return path: sequence of 16-bit limbs, least significant first *)
Limbs(w) == (w + 15) \div 16
LimbMax(w, k) == IF k < Limbs(w) \/ w % 16 = 0 THEN 65535 ELSE P2(w % 16) - 1
Word(x, w) == Tab(Limbs(w), LAMBDA k : IF k = 1 THEN x ELSE 0)      \* small constant (x < 2^16) -> data word
AllOnes(w) == Tab(Limbs(w), LAMBDA k : LimbMax(w, k))              \* 2**len(dat_w) - 1
Zero(w) == Tab(Limbs(w), LAMBDA k : 0)
OrWord(a, b) == Tab(Len(a), LAMBDA k : a[k] | b[k])
RECURSIVE OrWords(_, _, _)
OrWords(ws, k, w) == IF k = 0 THEN Zero(w) ELSE OrWord(ws[k], OrWords(ws, k - 1, w))     \* Reduce("OR", ...)
RECURSIVE OrBits(_, _)
OrBits(bs, k) == IF k = 0 THEN 0 ELSE IF bs[k] = 1 THEN 1 ELSE OrBits(bs, k - 1)
RECURSIVE CatBits(_, _)
CatBits(bs, k) == IF k = 0 THEN 0 ELSE bs[k] * P2(k - 1) + CatBits(bs, k - 1)    \* Cat(b1, ..., bk)

IdleBus == [cyc |-> 0, stb |-> 0, we |-> 0, adr |-> 0, dat_w |-> 0]

---------------------------------------------------------------------------
(* migen.genlib.roundrobin.RoundRobin(n, SP_WITHDRAW)                      *)
(* n = 1: grant is the constant 0, no register.  Otherwise: Case(grant):   *)
(* case i: If(~request[i]) the first requester among i+1, i+2, ..., i+n-1  *)
(* (mod n) gets the grant; nobody requesting, or the holder still          *)
(* requesting: unchanged.  grant = Signal(max = max(2, n)) can hold values *)
(* >= n when n is not a power of two; the Case has no default for them.    *)
RRGrant(n, g) == IF n = 1 THEN 0 ELSE g[1]
RRNext(n, grant, req) ==                          \* req: sequence of n request bits
  IF grant >= n THEN grant
  ELSE IF req[grant + 1] = 1 THEN grant
  ELSE LET cand == { k \in 1..(n - 1) : req[((grant + k) % n) + 1] = 1 } IN
       IF cand = {} THEN grant ELSE (grant + MinOf(cand)) % n

(* Arbiter(masters, target): every master-to-slave signal of the target is *)
(* Array(masters' signals)[rr.grant]; ack and err go back to the granted   *)
(* master only, dat_r to all of them; rr.request = Cat(cyc of the masters) *)
ArbDown(n, grant, ms) == ms[Clamp(grant, n - 1) + 1]
ArbReq(n, ms) == Tab(n, LAMBDA i : ms[i].cyc)
ArbUp(n, grant, t) ==
  Tab(n, LAMBDA i : [ack |-> B(t.ack = 1 /\ grant = i - 1), err |-> B(t.err = 1 /\ grant = i - 1), dat_r |-> t.dat_r])

(* Decoder(master, slaves, register)                                       *)
Match(reg, a) ==
  CASE reg.k = "mask"  -> (a \div reg.size) = (reg.lo \div reg.size)       \* a[log2(size):] == origin >> log2(size)
    [] reg.k = "range" -> a >= reg.lo /\ a < reg.lo + reg.size
    [] reg.k = "true"  -> TRUE
DecSel(m, a) == Tab(m.ns, LAMBDA j : B(Match(m.regions[j], a)))              \* slave_sel (combinational)
DecDown(m, mm, sel) ==                                                     \* all signals but cyc are passed to every slave
  Tab(m.ns, LAMBDA j : [mm EXCEPT !.cyc = B(mm.cyc = 1 /\ sel[j] = 1)])
(* return path: ack/err = OR of the slaves', dat_r = OR of the slaves' data masked with slave_sel_r,    *)
(* which is the registered select if register else the combinational one                                *)
DecUp(m, selr, ss) ==
  [ack   |-> OrBits(Tab(m.ns, LAMBDA j : ss[j].ack), m.ns),
   err   |-> OrBits(Tab(m.ns, LAMBDA j : ss[j].err), m.ns),
   dat_r |-> OrWords(Tab(m.ns, LAMBDA j : IF Bit(selr, j - 1) = 1 THEN ss[j].dat_r ELSE Zero(m.dw)), m.ns, m.dw)]
DecSelR(m, regs, k, sel) == IF m.register = 1 THEN regs[k] ELSE CatBits(sel, m.ns)

(* WaitTimer(t): count = Signal(bits_for(t), reset = t); done = (count == 0);                          *)
(* sync: If(wait, If(~done, count - 1)).Else(count = t)                                                *)
WTDone(count) == count = 0
WTNext(t, count, wait) == IF wait THEN (IF count = 0 THEN count ELSE count - 1) ELSE t

(* Timeout(master, cycles): timer.wait = stb & cyc & ~ack & ~err of the bus (ack and err as finally    *)
(* driven, the forced ack included); If(timer.done): dat_r = all ones, ack = 1, error = 1              *)
TOUp(m, count, up) == IF WTDone(count) THEN [up EXCEPT !.ack = 1, !.dat_r = AllOnes(m.dw)] ELSE up
TOWait(mm, up2) == mm.stb = 1 /\ mm.cyc = 1 /\ up2.ack = 0 /\ up2.err = 0

---------------------------------------------------------------------------
(* test bench of harness/families/wbic.py                                  *)
TBMaster(m, iv, i) ==
  LET req == iv[3 * (i - 1) + 1]
      tgt == iv[3 * (i - 1) + 2]
  IN [cyc |-> B(req # 0), stb |-> B(req = 1), we |-> iv[3 * (i - 1) + 3],
      adr |-> m.adrs[Clamp(tgt, Len(m.adrs) - 1) + 1], dat_w |-> i]
TBMasters(m, iv) == Tab(m.n, LAMBDA i : TBMaster(m, iv, i))
(* slave j: answers in the cycle it sees cyc & stb (minlat: and saw the same dat_w[:4] strobed in the   *)
(* previous cycle) as its policy input says; dat_r = 8 + j                                             *)
TBSlave(m, r, iv, j, sl) ==
  LET pol == iv[3 * m.n + j]
      rdy == sl.cyc = 1 /\ sl.stb = 1 /\ (m.minlat = 0 \/ r.seen[j] = sl.dat_w % 16)
  IN [ack |-> B(pol = 1 /\ rdy), err |-> B(pol = 2 /\ rdy), dat_r |-> Word(8 + j, m.dw)]
TBSeen(m, sls) ==
  IF m.minlat = 1 THEN Tab(m.ns, LAMBDA j : IF sls[j].cyc = 1 /\ sls[j].stb = 1 THEN sls[j].dat_w % 16 ELSE 0) ELSE <<>>
DatCode(m, w) == IF w = AllOnes(m.dw) THEN 15                              \* Mux(dat_r == 0xffffffff, 15, dat_r[:4])
                 ELSE w[1] % 16
RECURSIVE OutM(_, _, _), OutS(_, _)
OutM(m, ups, i) == IF i > m.n THEN <<>> ELSE <<ups[i].ack, ups[i].err, DatCode(m, ups[i].dat_r)>> \o OutM(m, ups, i + 1)
OutS(sls, j) == IF j > Len(sls) THEN <<>>
                ELSE <<sls[j].cyc, sls[j].stb, sls[j].we, sls[j].dat_w, sls[j].adr>> \o OutS(sls, j + 1)
Outputs(m, ups, sls, error) == OutM(m, ups, 1) \o OutS(sls, 1) \o <<error>>

---------------------------------------------------------------------------
(* InterconnectShared(masters, slaves, register, timeout_cycles):          *)
(*   shared = Interface();  arbiter = Arbiter(masters, shared);            *)
(*   decoder = Decoder(shared, slaves, register);                          *)
(*   timeout = Timeout(shared, timeout_cycles)  if timeout_cycles          *)
SharedInit(m) ==
  [grant |-> IF m.n > 1 THEN <<0>> ELSE <<>>,
   selr  |-> IF m.register = 1 THEN <<0>> ELSE <<>>,
   count |-> IF m.timeout > 0 THEN <<m.timeout>> ELSE <<>>,
   seen  |-> IF m.minlat = 1 THEN Tab(m.ns, LAMBDA j : 0) ELSE <<>>]
SharedStep(m, r, iv) ==
  LET ms     == TBMasters(m, iv)
      grant  == RRGrant(m.n, r.grant)
      shared == ArbDown(m.n, grant, ms)                       \* forward path
      sel    == DecSel(m, shared.adr)
      sls    == DecDown(m, shared, sel)
      ss     == Tab(m.ns, LAMBDA j : TBSlave(m, r, iv, j, sls[j]))
      dec    == DecUp(m, DecSelR(m, r.selr, 1, sel), ss)      \* return path
      up     == IF m.timeout > 0 THEN TOUp(m, r.count[1], dec) ELSE dec
      error  == IF m.timeout > 0 THEN B(WTDone(r.count[1])) ELSE 0
      ups    == ArbUp(m.n, grant, up)
  IN [o |-> Outputs(m, ups, sls, error),
      r |-> [grant |-> IF m.n > 1 THEN <<RRNext(m.n, grant, ArbReq(m.n, ms))>> ELSE <<>>,
             selr  |-> IF m.register = 1 THEN <<CatBits(sel, m.ns)>> ELSE <<>>,
             count |-> IF m.timeout > 0 THEN <<WTNext(m.timeout, r.count[1], TOWait(shared, up))>> ELSE <<>>,
             seen  |-> TBSeen(m, sls)]]

(* Crossbar(masters, slaves, register, timeout_cycles):                    *)
(*   access[i][j] = Interface();  for every master i: Decoder(master i,    *)
(*   row access[i], register);  for every slave j: Arbiter(column          *)
(*   access[.][j], slave j).  timeout_cycles is not used.                  *)
XbarInit(m) ==
  [grant |-> IF m.n > 1 THEN Tab(m.ns, LAMBDA j : 0) ELSE <<>>,
   selr  |-> IF m.register = 1 THEN Tab(m.n, LAMBDA i : 0) ELSE <<>>,
   count |-> <<>>,
   seen  |-> IF m.minlat = 1 THEN Tab(m.ns, LAMBDA j : 0) ELSE <<>>]
XbarStep(m, r, iv) ==
  LET ms     == TBMasters(m, iv)
      sel    == Tab(m.n, LAMBDA i : DecSel(m, ms[i].adr))
      access == Tab(m.n, LAMBDA i : DecDown(m, ms[i], sel[i]))                 \* row i = decoder i's slave side
      cols   == Tab(m.ns, LAMBDA j : Tab(m.n, LAMBDA i : access[i][j]))         \* column j = arbiter j's master side
      grant(j) == IF m.n = 1 THEN 0 ELSE r.grant[j]
      sls    == Tab(m.ns, LAMBDA j : ArbDown(m.n, grant(j), cols[j]))
      ss     == Tab(m.ns, LAMBDA j : TBSlave(m, r, iv, j, sls[j]))
      cup    == Tab(m.ns, LAMBDA j : ArbUp(m.n, grant(j), ss[j]))              \* per slave: what each master gets back
      ups    == Tab(m.n, LAMBDA i : DecUp(m, DecSelR(m, r.selr, i, sel[i]), Tab(m.ns, LAMBDA j : cup[j][i])))
  IN [o |-> Outputs(m, ups, sls, 0),
      r |-> [grant |-> IF m.n > 1 THEN Tab(m.ns, LAMBDA j : RRNext(m.n, r.grant[j], ArbReq(m.n, cols[j]))) ELSE <<>>,
             selr  |-> IF m.register = 1 THEN Tab(m.n, LAMBDA i : CatBits(sel[i], m.ns)) ELSE <<>>,
             count |-> <<>>,
             seen  |-> TBSeen(m, sls)]]

(* InterconnectPointToPoint(master, slave): master.connect(slave)          *)
P2PInit(m) == [grant |-> <<>>, selr |-> <<>>, count |-> <<>>, seen |-> IF m.minlat = 1 THEN <<0>> ELSE <<>>]
P2PStep(m, r, iv) ==
  LET ms  == TBMasters(m, iv)
      sls == <<ms[1]>>
      ss  == TBSlave(m, r, iv, 1, sls[1])
  IN [o |-> Outputs(m, <<ss>>, sls, 0),
      r |-> [grant |-> <<>>, selr |-> <<>>, count |-> <<>>, seen |-> TBSeen(m, sls)]]

---------------------------------------------------------------------------
MInit(m) ==
  CASE m.kind = "shared"   -> SharedInit(m)
    [] m.kind = "crossbar" -> XbarInit(m)
    [] m.kind = "p2p"      -> P2PInit(m)
MStep(m, r, iv) ==
  CASE m.kind = "shared"   -> SharedStep(m, r, iv)
    [] m.kind = "crossbar" -> XbarStep(m, r, iv)
    [] m.kind = "p2p"      -> P2PStep(m, r, iv)
=============================================================================
