---------------------------- MODULE WbIcContract ----------------------------
(***************************************************************************)
(* L1 contract of a Wishbone (classic) shared interconnect / crossbar,     *)
(* litex/soc/interconnect/wishbone.py, properties C06 and (with a time-out *)
(* configured and faulty slaves allowed) C11.                              *)
(*                                                                         *)
(* One step = one clock cycle.  N masters, M slaves (from the cfg record). *)
(*   iv = <<req_1, tgt_1, we_1, ..., req_N, tgt_N, we_N, pol_1..pol_M>>    *)
(*        req: 0 idle, 1 cyc & stb, 2 cyc without stb (wait state)         *)
(*        tgt: 1..M = address inside that slave's region, M+1 = unmapped   *)
(*        pol: what slave j does IF it sees cyc & stb in this cycle:       *)
(*             0 nothing (latency / silent), 1 ack, 2 err                  *)
(*        (a zero-latency slave reacts combinationally: Wishbone classic)  *)
(*   o  = <<ack_i, err_i, dat_r_i  (per master),                           *)
(*          cyc_j, stb_j, we_j, tag_j, adr_j (per slave), error>>          *)
(*        tag_j = dat_w seen by slave j = identity of the master driving it*)
(*        (master i always drives dat_w = i), slave j always returns       *)
(*        dat_r = 8 + j; adr_j = address seen by slave j                   *)
(* c: n, m, bases (address master drives for tgt t), hole (1 if tgt M+1    *)
(*    may be used), minlat (0: slaves may answer combinationally in the   *)
(*    first cycle; 1: one cycle later at the earliest, as all LiteX slaves *)
(*    do), waitstates (1 if req = 2 is explored), timeout (0 = no *)
(*    time-out configured, else T), faulty (1: slaves may stay silent      *)
(*    forever: C11; 0: slaves are fair: C06), allones (read data returned  *)
(*    on a time-out), cbar (1 crossbar, 0 shared)                          *)
(***************************************************************************)
EXTENDS Integers, Sequences, FiniteSets, TLC

VARIABLES open,    \* per master: <<tgt, we>> of the request it holds (cyc & stb, unterminated) or <<>>
          incyc,   \* per master: 1 while it keeps cyc high (one bus cycle = one cyc period)
          served,  \* per master: 1 if its current cyc period has been served (seen by a slave / terminated)
          waitc,   \* per master: foreign cyc periods served since it started waiting unserved
          owner,   \* per slave: master that drove it in the previous cycle (0 none)
          age,     \* per master: cycles its open request has CERTAINLY been granted and unanswered
          ageu,    \* per master: cycles its open request has POSSIBLY been granted and unanswered (age <= ageu)
          tofired, \* per master: 1 if its last termination was a time-out (recovery bookkeeping)
          seen,    \* per slave: master whose strobed request it saw in the previous cycle (0 none)
          obs

cvars == <<open, incyc, served, waitc, owner, age, ageu, tofired, seen, obs>>

MAXN == 4
Masters(c) == 1..c.n
Slaves(c)  == 1..c.m
Req(iv, i) == iv[3 * (i - 1) + 1]
Tgt(iv, i) == iv[3 * (i - 1) + 2]
We(iv, i)  == iv[3 * (i - 1) + 3]
Pol(c, iv, j) == iv[3 * c.n + j]
MAck(o, i) == o[3 * (i - 1) + 1]
MErr(o, i) == o[3 * (i - 1) + 2]
MDat(o, i) == o[3 * (i - 1) + 3]
SCyc(c, o, j) == o[3 * c.n + 5 * (j - 1) + 1]
SStb(c, o, j) == o[3 * c.n + 5 * (j - 1) + 2]
SWe(c, o, j)  == o[3 * c.n + 5 * (j - 1) + 3]
STag(c, o, j) == o[3 * c.n + 5 * (j - 1) + 4]
SAdr(c, o, j) == o[3 * c.n + 5 * (j - 1) + 5]
ErrPulse(c, o) == o[3 * c.n + 5 * c.m + 1]

---------------------------------------------------------------------------
(* Environment *)
Targets(c) == IF c.hole = 1 THEN 1..(c.m + 1) ELSE 1..c.m
Reqs(c) == IF c.waitstates = 1 THEN {1, 2} ELSE {1}
WEs(c) == IF c.rw = 1 THEN {0, 1} ELSE {0}

\* what master i may do in this cycle
MasterMoves(c, i) ==
  IF open[i] # <<>>
  THEN \* Wishbone: a strobed request is held unchanged until it is terminated ...
       { <<1, open[i][1], open[i][2]>> } \cup
       \* ... except that a request nobody can answer (unmapped, no time-out) may be given up
       (IF open[i][1] = c.m + 1 /\ c.timeout = 0 THEN { <<0, 0, 0>> } ELSE {})
  ELSE { <<0, 0, 0>> } \cup { <<r, t, w>> : r \in Reqs(c), t \in Targets(c), w \in WEs(c) }

SlaveMoves(c) == IF c.errs = 1 THEN {0, 1, 2} ELSE {0, 1}

RECURSIVE MProd(_, _), SProd(_, _)
MProd(c, i) == IF i > c.n THEN { <<>> }
               ELSE { <<mv[1], mv[2], mv[3]>> \o rest : mv \in MasterMoves(c, i), rest \in MProd(c, i + 1) }
SProd(c, j) == IF j > c.m THEN { <<>> }
               ELSE { <<p>> \o rest : p \in SlaveMoves(c), rest \in SProd(c, j + 1) }
Inputs(c) == { a \o b : a \in MProd(c, 1), b \in SProd(c, 1) }

---------------------------------------------------------------------------
CInit ==
  /\ open = [i \in 1..MAXN |-> <<>>]
  /\ incyc = [i \in 1..MAXN |-> 0]
  /\ served = [i \in 1..MAXN |-> 0]
  /\ waitc = [i \in 1..MAXN |-> 0]
  /\ owner = [j \in 1..MAXN |-> 0]
  /\ age = [i \in 1..MAXN |-> 0]
  /\ ageu = [i \in 1..MAXN |-> 0]
  /\ tofired = [i \in 1..MAXN |-> 0]
  /\ seen = [j \in 1..MAXN |-> 0]
  /\ obs = [okroute |-> TRUE, okowner |-> TRUE, okanswer |-> TRUE, okdata |-> TRUE, oknolost |-> TRUE, okwait |-> TRUE,
            oktimeout |-> TRUE, okerrind |-> TRUE, oknodisturb |-> TRUE,
            idle |-> [i \in 1..MAXN |-> TRUE], slaveok |-> [j \in 1..MAXN |-> TRUE],
            notwaiting |-> [i \in 1..MAXN |-> TRUE]]

CStep(c, iv, o) ==
  LET cyc(i)   == Req(iv, i) # 0
      stb(i)   == Req(iv, i) = 1
      \* slave j answers in this cycle (combinational reaction to what it sees)
      \* (c.minlat = 1: only from the second cycle on in which it sees the same master's request)
      ready(j) == SCyc(c, o, j) = 1 /\ SStb(c, o, j) = 1 /\ (c.minlat = 0 \/ seen[j] = STag(c, o, j))
      sack(j)  == Pol(c, iv, j) = 1 /\ ready(j)
      serr(j)  == Pol(c, iv, j) = 2 /\ ready(j)
      sterm(j) == sack(j) \/ serr(j)
      drives(i, j) == SCyc(c, o, j) = 1 /\ STag(c, o, j) = i
      term(i)  == MAck(o, i) = 1 \/ MErr(o, i) = 1
      \* time-out: the interconnect may terminate master i itself once its request has been
      \* presented (granted) and unanswered for T cycles
      granted(i) == IF Tgt(iv, i) = c.m + 1
                    THEN \* unmapped: the grant cannot be observed at a slave; counted only while
                         \* every other master is and was idle (then the bus is certainly i's)
                         \A k \in Masters(c) : k = i \/ (~cyc(k) /\ incyc[k] = 0)
                    ELSE \E j \in Slaves(c) : drives(i, j)
      slaveans(i) == \E j \in Slaves(c) : drives(i, j) /\ sterm(j)
      \* a slave answer arriving in the very cycle the timer expires may lose against the forced
      \* termination (the error pulse says which of the two happened)
      expiring(i) == c.timeout > 0 /\ stb(i) /\ term(i) /\ ageu[i] >= c.timeout /\ ErrPulse(c, o) = 1
      synth(i) == c.timeout > 0 /\ stb(i) /\ term(i) /\ (~slaveans(i) \/ expiring(i))
      okroute ==
        /\ \A j \in Slaves(c) : SCyc(c, o, j) = 1 =>
              LET i == STag(c, o, j) IN
                /\ i \in Masters(c) /\ cyc(i) /\ Tgt(iv, i) = j
                /\ SStb(c, o, j) = (IF stb(i) THEN 1 ELSE 0)
                /\ (stb(i) => SWe(c, o, j) = We(iv, i) /\ SAdr(c, o, j) = c.bases[j])
        \* one master is never presented to two slaves
        /\ \A j1, j2 \in Slaves(c) : (j1 # j2 /\ SCyc(c, o, j1) = 1 /\ SCyc(c, o, j2) = 1)
                                        => STag(c, o, j1) # STag(c, o, j2)
      okowner ==
        \A j \in Slaves(c) : (owner[j] # 0 /\ cyc(owner[j]) /\ Tgt(iv, owner[j]) = j /\ incyc[owner[j]] = 1)
                                => drives(owner[j], j)
      okanswer ==
        \A i \in Masters(c) :
          term(i) =>
            /\ stb(i)
            /\ \/ \E j \in Slaves(c) :
                    /\ ~synth(i)
                    /\ drives(i, j) /\ sterm(j)
                    /\ MAck(o, i) = (IF sack(j) THEN 1 ELSE 0)
                    /\ MErr(o, i) = (IF serr(j) THEN 1 ELSE 0)
               \/ synth(i)
      okdata ==
        \A i \in Masters(c) : \A j \in Slaves(c) :
          (MAck(o, i) = 1 /\ We(iv, i) = 0 /\ drives(i, j) /\ sack(j) /\ ~synth(i)) => MDat(o, i) = 8 + j
      oknolost ==
        \A j \in Slaves(c) : sterm(j) => (STag(c, o, j) \in Masters(c) /\ term(STag(c, o, j)))
      newserved(i) == cyc(i) /\ (IF incyc[i] = 1 THEN served[i] = 0 ELSE TRUE)
                         /\ (term(i) \/ \E j \in Slaves(c) : drives(i, j))
      \* foreign cycles that compete with i: all of them on a shared bus, those to the same slave in a crossbar
      nforeign(i) == Cardinality({ k \in Masters(c) : k # i /\ newserved(k) /\ (c.cbar = 0 \/ Tgt(iv, k) = Tgt(iv, i)) })
      waiting(i)  == stb(i) /\ Tgt(iv, i) <= c.m /\ ~newserved(i) /\ (incyc[i] = 0 \/ served[i] = 0)
      waitc1 == [i \in 1..MAXN |-> IF i \in Masters(c) /\ waiting(i)
                                   THEN waitc[i] + nforeign(i) ELSE 0]
      \* ------- C11 clauses
      age1(i) == IF stb(i) /\ ~term(i) /\ granted(i) THEN age[i] + 1 ELSE 0
      maybegranted(i) == IF Tgt(iv, i) = c.m + 1 THEN TRUE ELSE \E j \in Slaves(c) : drives(i, j)
      ageu1(i) == IF stb(i) /\ ~term(i) /\ maybegranted(i) THEN ageu[i] + 1 ELSE 0
      oktimeout == c.timeout > 0 => \A i \in Masters(c) : age[i] <= c.timeout + c.slack
      okerrind == \A i \in Masters(c) :
                    synth(i) => ( /\ MAck(o, i) = 1
                                  /\ (We(iv, i) = 0 => MDat(o, i) = c.allones)
                                  /\ ErrPulse(c, o) = 1 )
      oknodisturb ==
        /\ \A i \in Masters(c) : synth(i) => ageu[i] >= c.timeout     \* never fires early
        /\ (ErrPulse(c, o) = 1 => \E i \in Masters(c) : synth(i))
  IN
  /\ open' = [i \in 1..MAXN |-> IF i \in Masters(c) /\ stb(i) /\ ~term(i)
                                THEN <<Tgt(iv, i), We(iv, i)>> ELSE <<>>]
  /\ incyc' = [i \in 1..MAXN |-> IF i \in Masters(c) /\ cyc(i) THEN 1 ELSE 0]
  /\ served' = [i \in 1..MAXN |-> IF i \in Masters(c) /\ cyc(i) /\
                                     ((incyc[i] = 1 /\ served[i] = 1) \/ newserved(i)) THEN 1 ELSE 0]
  /\ waitc' = [i \in 1..MAXN |-> IF waitc1[i] > c.n THEN c.n ELSE waitc1[i]]
  /\ owner' = [j \in 1..MAXN |-> IF j \in Slaves(c) /\ SCyc(c, o, j) = 1 THEN STag(c, o, j) ELSE 0]
  /\ age' = [i \in 1..MAXN |-> IF i \in Masters(c) THEN
                                   (IF age1(i) > c.timeout + c.slack + 1 THEN c.timeout + c.slack + 1 ELSE age1(i))
                               ELSE 0]
  /\ ageu' = [i \in 1..MAXN |-> IF i \in Masters(c) THEN
                                   (IF ageu1(i) > c.timeout + 1 THEN c.timeout + 1 ELSE ageu1(i))
                                ELSE 0]
  /\ tofired' = [i \in 1..MAXN |-> IF i \in Masters(c) /\ synth(i) THEN 1
                                   ELSE IF i \in Masters(c) /\ term(i) THEN 0 ELSE tofired[i]]
  /\ seen' = [j \in 1..MAXN |-> IF j \in Slaves(c) /\ SCyc(c, o, j) = 1 /\ SStb(c, o, j) = 1 THEN STag(c, o, j) ELSE 0]
  /\ obs' = [okroute |-> okroute, okowner |-> okowner, okanswer |-> okanswer, okdata |-> okdata, oknolost |-> oknolost,
             okwait |-> \A i \in Masters(c) : waitc1[i] <= c.n - 1,
             oktimeout |-> oktimeout, okerrind |-> okerrind, oknodisturb |-> oknodisturb,
             idle |-> [i \in 1..MAXN |-> i \notin Masters(c) \/ ~cyc(i)],
             slaveok |-> [j \in 1..MAXN |-> j \notin Slaves(c) \/ SCyc(c, o, j) = 0 \/ SStb(c, o, j) = 0 \/ sterm(j)],
             notwaiting |-> [i \in 1..MAXN |-> i \notin Masters(c) \/ ~stb(i) \/ term(i)
                                               \/ (Tgt(iv, i) = c.m + 1 /\ c.timeout = 0)]]

---------------------------------------------------------------------------
(* C06 *)
RoutedByAddress       == obs.okroute    \* a slave sees cyc only from one master whose address decodes to it
OwnerStable           == obs.okowner    \* a bus cycle stays with its master until that master ends it
AnswerToIssuerOnly    == obs.okanswer   \* ack/err reach the issuing master and no other
ReadDataFromAnsweringSlave == obs.okdata \* an acknowledged read carries the data of the slave that answered
NoLostTermination     == obs.oknolost   \* a slave's termination always reaches the master driving it
BoundedWait           == obs.okwait     \* granted within n-1 other masters' cycles
(* C11 *)
TerminatedInTime      == obs.oktimeout
ErrorIndication       == obs.okerrind
NoDisturbance         == obs.oknodisturb
=============================================================================
