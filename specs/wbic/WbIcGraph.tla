------------------------------ MODULE WbIcGraph ------------------------------
EXTENDS WbIcContract, Json, IOUtils, GraphLookup
G == JsonDeserialize(IOEnv.GRAPH)
NDuts == Len(G.duts)
VARIABLES d, s,
          ph   \* toggles on a step that changes nothing else: a hung implementation (fixpoint of the product)
               \* must be an infinite NON-stuttering behaviour, or WF_vars(Next) would let TLC walk away from it
vars == <<d, s, open, incyc, served, waitc, owner, age, ageu, tofired, seen, obs, ph>>
C == G.duts[d].cfg
Init == /\ d \in 1..NDuts /\ s = 0 /\ ph = 0 /\ CInit
Step(iv) ==
  /\ s >= 0
  /\ LET e == GLookup(G.duts[d].succ[s + 1], iv) IN
       IF e # <<>>
       THEN /\ s' = e[3] /\ d' = d
            /\ CStep(C, iv, e[2])
            /\ ph' = IF e[3] = s /\ cvars' = cvars THEN 1 - ph ELSE 0
       ELSE /\ PrintT(<<"NEED", d, s, iv>>)
            /\ s' = -1 /\ d' = d /\ ph' = 0 /\ UNCHANGED cvars
Next == \E iv \in Inputs(C) : Step(iv)
Spec == Init /\ [][Next]_vars /\ WF_vars(Next)
Alias == [d |-> d, s |-> s, obs |-> obs, open |-> open, waitc |-> waitc, age |-> age,
          iv |-> CHOOSE iv \in Inputs(C) : Step(iv)]

(* liveness.  Premise: no master HOGS the bus, i.e. every master is infinitely often outside a bus cycle, or in a   *)
(* bus cycle that has not been served yet with a strobed request the interconnect is obliged to terminate (mapped, *)
(* or any if a time-out is configured).  A master that keeps a served cycle, keeps cyc without stb, or keeps an     *)
(* unmapped request without time-out for ever is a hog (Wishbone lets it).                                          *)
(* (Until session 3 the premise was "every master is idle infinitely often", which a waiting master itself         *)
(* falsifies: the clauses could not fail.  Canary: harness/families/wbic.py canary="stuck_grant".)                  *)
Obliged(k) == open[k] # <<>> /\ (open[k][1] <= C.m \/ C.timeout > 0)
NoHog == \A k \in 1..MAXN : []<>(incyc[k] = 0 \/ (served[k] = 0 /\ Obliged(k)))
FairSlaves == \A j \in 1..MAXN : []<>(obs.slaveok[j])
(* C06: fair slaves, no hog  =>  every request is terminated *)
Served == (NoHog /\ FairSlaves) => \A i \in 1..MAXN : []<>(obs.notwaiting[i])
(* C11: even with silent slaves every request is terminated, and the bus keeps working *)
Recovers == NoHog => \A i \in 1..MAXN : []<>(obs.notwaiting[i])
=============================================================================
